INIT Init
NEXT Next
