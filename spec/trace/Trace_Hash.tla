---------------------------- MODULE Trace_Hash ----------------------------
(***************************************************************************)
(* Trace validator for the HashTable / Counter / HashSet machine          *)
(* (C11, C12).  The trace file is a JSON array of recorded programs       *)
(*   {id, steps, rec: [{res, obs: [<<"vals", seq>> per table]}..]}        *)
(* run on the real classes (key dtypes int8..uint64, keys up to 2**62 as  *)
(* limb tuples, explicit and default moduli, 20-50 step histories); after *)
(* every step the driver looked up all keys of every live table on a deep *)
(* copy.  The validator drives the specification's dictionary state       *)
(* machine with the recorded steps and judges every result and every      *)
(* table's content after every step.  Where keys are plain integers the   *)
(* bucket / lazy-value mechanism level is carried along too and           *)
(* HashRefines is checked as an invariant on the recorded histories.      *)
(* Verdict lines: <<"V", id, stepno, table (0 = the step's result),       *)
(*                  verdict, expected>>;  <<"S", id, stepno>> = cut short. *)
(***************************************************************************)
EXTENDS HashTable, Json, IOUtils
Trace == JsonDeserialize(IOEnv.TRACE_FILE)
VARIABLES p, l
Init == HInit /\ p = 1 /\ l = 1 /\ TLCSet(1, 0)

ResV(res) ==
  IF hlast'[1] = "new" THEN (IF res[1] = "new" THEN "ok" ELSE "raised")
  ELSE IF hlast'[1] = "none" THEN (IF res[1] = "none" THEN "ok" ELSE "raised")
  ELSE LET exp == hlast'[2] IN
       IF exp[1] = "unspec" THEN "unspec"
       ELSE IF res[1] # "obs" THEN (IF exp[1] = "refused" THEN "not-refused" ELSE "kind")
       ELSE IF exp[1] = "refused" THEN (IF res[2][1] = "raised" THEN "ok" ELSE "not-refused")
       ELSE IF res[2][1] = "raised" THEN "raised"
       ELSE IF exp[1] # res[2][1] THEN "kind"
       ELSE IF exp = res[2] THEN "ok" ELSE "value"
\* the recorded run and the specification disagree on whether a table was created / the step is outside the claim and did not raise
Diverges(res) == \/ (hlast'[1] = "new") # (res[1] = "new")
                 \/ (hlast'[1] = "obs" /\ hlast'[2][1] = "unspec" /\ ~(res[1] = "obs" /\ res[2][1] = "raised"))
TabV(g, ob) ==
  IF ob[1] = "raised" THEN PrintT(<<"V", Trace[p].id, l, g, "raised", <<"vals", tabs'[g][2]>>>>)
  ELSE IF ob[1] = "set" THEN (IF \A i \in DOMAIN ob[2] : ob[2][i] = 1 THEN TRUE ELSE PrintT(<<"V", Trace[p].id, l, g, "value", <<"set">>>>))
  ELSE IF ob[2] = tabs'[g][2] THEN TRUE
  ELSE PrintT(<<"V", Trace[p].id, l, g, "value", <<"vals", tabs'[g][2]>>>>)
TabOK(g, ob) == IF ob[1] = "raised" THEN FALSE ELSE IF ob[1] = "set" THEN \A i \in DOMAIN ob[2] : ob[2][i] = 1 ELSE ob[2] = tabs'[g][2]
Reset == tabs' = <<>> /\ mtabs' = <<>> /\ hlast' = <<"none">>
Next ==
  /\ p <= Len(Trace)
  /\ IF l <= Len(Trace[p].steps) THEN
        LET st == Trace[p].steps[l]  rec == Trace[p].rec[l] IN
        IF HHandles(st) \subseteq DOMAIN tabs THEN
           /\ HStep(st)
           /\ LET v == ResV(rec.res)
                  tabsok == Len(rec.obs) = Len(tabs') /\ \A g \in DOMAIN tabs' : TabOK(g, rec.obs[g])
              IN IF v \notin {"ok", "unspec"} THEN      \* first disagreement of this program: report it, stop judging the rest
                    PrintT(<<"V", Trace[p].id, l, 0, v, hlast'>>) /\ l' = Len(Trace[p].steps) + 1
                 ELSE IF Diverges(rec.res) \/ Len(rec.obs) # Len(tabs') THEN PrintT(<<"S", Trace[p].id, l>>) /\ l' = Len(Trace[p].steps) + 1
                 ELSE IF ~tabsok THEN (\A g \in DOMAIN tabs' : TabV(g, rec.obs[g])) /\ l' = Len(Trace[p].steps) + 1
                 ELSE l' = l + 1
           /\ p' = p
        ELSE PrintT(<<"S", Trace[p].id, l>>) /\ UNCHANGED <<tabs, mtabs, hlast, p>> /\ l' = Len(Trace[p].steps) + 1
     ELSE Reset /\ p' = p + 1 /\ l' = 1 /\ TLCSet(1, p)
AllConsumed == TLCGet(1) = Len(Trace)
=============================================================================
