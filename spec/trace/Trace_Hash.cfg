INIT Init
NEXT Next
INVARIANT HashRefines
POSTCONDITION AllConsumed
CHECK_DEADLOCK FALSE
