---------------------------- MODULE Trace_Heap ----------------------------
(***************************************************************************)
(* Trace validator for the heap machine (C06, C10, frame of C03).         *)
(* The trace file is a JSON array of recorded programs                    *)
(*   {id, steps: [step..], rec: [{res, obs: [<<dt, rows>> per handle]}..]}*)
(* run on the real library; after every step the driver observed EVERY    *)
(* live handle by shadow read.  The validator drives the specification's  *)
(* own state machine with the recorded steps (never with recorded state)  *)
(* and judges, after each step, every handle's observed content against   *)
(* level A (heap) - and, for classification of the named deviation only,  *)
(* against level M (what the shared buffers hold).  Verdict lines:        *)
(*   <<"V", id, stepno, handle, verdict, expected, mechanism>>            *)
(* verdict "known" = handle is stale and shows exactly the mechanism's    *)
(* content.  A structural divergence (spec expects a new handle, the code *)
(* raised, or the reverse) ends the judging of that program ("S" line).   *)
(***************************************************************************)
EXTENDS RaggedHeap, Judge, Json, IOUtils
Trace == JsonDeserialize(IOEnv.TRACE_FILE)
VARIABLES p, l
tvars == <<heap, alias, bufs, view, stale, last, anc, mayst, p, l>>
Init == HeapInit /\ p = 1 /\ l = 1 /\ TLCSet(1, 0)

AsOut(a) == IF a[1] = "raised" THEN a ELSE <<"ragged", a[1], a[2]>>
HandleVerdict(g, ob) ==
  LET exp == <<"ragged", heap'[g][1], heap'[g][2]>>
      mech == <<"ragged", heap'[g][1], MRowsOf(bufs', view'[g])>>
      v == Judge(exp, AsOut(ob), FALSE)
  IN IF v = "ok" THEN TRUE
     ELSE IF g \in stale' /\ Judge(mech, AsOut(ob), FALSE) = "ok" THEN PrintT(<<"V", Trace[p].id, l, g, "known", exp, mech>>)
     ELSE IF g \in mayst' THEN PrintT(<<"V", Trace[p].id, l, g, "known-inexact", exp, mech>>)
     ELSE PrintT(<<"V", Trace[p].id, l, g, v, exp, mech>>)
ResVerdict(res) ==       \* the step's own result
  IF last'[1] = "obs" /\ last'[2][1] = "unspec" THEN TRUE             \* the step is outside every claim: no verdict (the program is cut short)
  ELSE IF last'[1] = "obs" THEN
       (IF res[1] # "obs" THEN PrintT(<<"V", Trace[p].id, l, 0, IF last'[2][1] = "refused" THEN "not-refused" ELSE "kind", last'[2], last'[3]>>)
        ELSE LET v == Judge(last'[2], res[2], FALSE) IN
             IF v \in {"ok", "unspec"} THEN TRUE
             ELSE IF Judge(last'[3], res[2], FALSE) = "ok" THEN PrintT(<<"V", Trace[p].id, l, 0, "known", last'[2], last'[3]>>)
             ELSE IF HandlesOf(Trace[p].steps[l]) \cap mayst # {} THEN PrintT(<<"V", Trace[p].id, l, 0, "known-inexact", last'[2], last'[3]>>)
             ELSE PrintT(<<"V", Trace[p].id, l, 0, v, last'[2], last'[3]>>))
  ELSE IF last'[1] = "new" /\ res[1] # "new" THEN PrintT(<<"V", Trace[p].id, l, 0, "raised", last', last'>>)
  ELSE IF last'[1] = "none" /\ res[1] = "obs" THEN PrintT(<<"V", Trace[p].id, l, 0, "raised", last', last'>>)
  ELSE TRUE
\* the recorded run and the specification disagree on whether a handle was created, or the step is outside the claim
Diverges(res) == \/ (last'[1] = "new") # (res[1] = "new")
                 \/ (last'[1] = "obs" /\ last'[2][1] = "unspec" /\ ~(res[1] = "obs" /\ res[2][1] = "raised"))
Reset == heap' = <<>> /\ alias' = <<>> /\ bufs' = <<>> /\ view' = <<>> /\ stale' = {} /\ last' = <<"none">> /\ anc' = <<>> /\ mayst' = {}
Next ==
  /\ p <= Len(Trace)
  /\ IF l <= Len(Trace[p].steps) THEN
        LET st == Trace[p].steps[l]  rec == Trace[p].rec[l] IN
        IF HandlesOf(st) \subseteq Handles THEN
           /\ Step(st)
           /\ ResVerdict(rec.res)
           /\ IF Diverges(rec.res) THEN PrintT(<<"S", Trace[p].id, l>>) /\ l' = Len(Trace[p].steps) + 1
              ELSE /\ (IF Len(rec.obs) = Len(heap') THEN TRUE ELSE PrintT(<<"V", Trace[p].id, l, 0, "handles", <<Len(heap')>>, <<Len(rec.obs)>>>>))
                   /\ \A g \in DOMAIN heap' : IF g > Len(rec.obs) THEN TRUE ELSE HandleVerdict(g, rec.obs[g])
                   /\ l' = l + 1
           /\ p' = p
        ELSE PrintT(<<"S", Trace[p].id, l>>) /\ UNCHANGED <<heap, alias, bufs, view, stale, last, anc, mayst, p>> /\ l' = Len(Trace[p].steps) + 1
     ELSE Reset /\ p' = p + 1 /\ l' = 1 /\ TLCSet(1, p)
AllConsumed == TLCGet(1) = Len(Trace)          \* every recorded program was walked to its end (-workers 1)
=============================================================================
