---------------------------- MODULE Trace_Misc ----------------------------
(* Trace validator for BitArray (C13) and npdataclass / VarLenArray (C18): one-shot events {id, case, out}; outcomes are
   structures of integers / digit tuples, compared structurally. *)
EXTENDS BitArray, DataClass, Json, IOUtils
Trace == JsonDeserialize(IOEnv.TRACE_FILE)
VARIABLE l
Init == l = 1
ExpectOf(c) == IF c[1] \in {"bit_roundtrip", "bit_len", "bit_get", "bit_getlist", "bit_window"} THEN BitExpect(c) ELSE DCExpect(c)
JudgeM(exp, out) ==
  IF exp[1] = "unspec" THEN "unspec"
  ELSE IF exp[1] = "refused" THEN (IF out[1] = "raised" THEN "ok" ELSE "not-refused")
  ELSE IF out[1] = "raised" THEN "raised"
  ELSE IF out[1] # exp[1] THEN "kind"
  ELSE IF exp = out THEN "ok" ELSE "value"
Next == /\ l <= Len(Trace)
        /\ LET e == Trace[l]  exp == ExpectOf(e.case)  v == JudgeM(exp, e.out) IN
             IF v = "ok" THEN TRUE ELSE IF v = "unspec" THEN PrintT(<<"U", e.id>>) ELSE PrintT(<<"V", e.id, v, exp>>)
        /\ l' = l + 1
AllConsumed == TLCGet("stats").diameter - 1 = Len(Trace)
=============================================================================
