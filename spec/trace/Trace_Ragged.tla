---------------------------- MODULE Trace_Ragged ----------------------------
(***************************************************************************)
(* Trace validator for one-shot RaggedArray operations (C01 - C09, C19).  *)
(* A trace is a JSON array of events {case, out, strict} recorded from    *)
(* the real library by a seeded driver: the abstract case that was run    *)
(* and the projected outcome.  For each event the level-A operator        *)
(* computes the expected outcome FROM THE CASE ONLY and Judge gives a      *)
(* total verdict; every non-"ok" verdict is printed (with the expected    *)
(* outcome, so a replay file can be written) and the trace always         *)
(* advances.  Acceptance: every event consumed (POSTCONDITION).           *)
(***************************************************************************)
EXTENDS Ragged, Judge, TLC, Json, IOUtils
Trace == JsonDeserialize(IOEnv.TRACE_FILE)
VARIABLE l
Init == l = 1
Next == /\ l <= Len(Trace)
        /\ LET e == Trace[l]
               exp == Expect(e.case)
               v == Judge(exp, e.out, e.strict)
           IN IF v = "ok" THEN TRUE
              ELSE IF v = "unspec" THEN PrintT(<<"U", e.id>>)
              ELSE PrintT(<<"V", e.id, v, exp>>)
        /\ l' = l + 1
AllConsumed == TLCGet("stats").diameter - 1 = Len(Trace)
=============================================================================
