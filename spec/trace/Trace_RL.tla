---------------------------- MODULE Trace_RL ----------------------------
(***************************************************************************)
(* Trace validator for run-length arrays (C14 - C17): one-shot events     *)
(* {id, case, out, strict} recorded from the real classes; the expected   *)
(* outcome is computed from the case by the level-A operators and judged  *)
(* together with the encoding predicates (Canonical, NoAdjEq, Consistent, *)
(* lock-step) on the observed run boundaries and run values.              *)
(***************************************************************************)
EXTENDS RunLength2d, Judge, TLC, Json, IOUtils
Trace == JsonDeserialize(IOEnv.TRACE_FILE)
VARIABLE l
Init == l = 1
JudgeAny(exp, out, strict) ==
  IF exp[1] = "unspec" THEN "unspec"
  ELSE IF exp[1] = "refused" THEN (IF out[1] = "raised" THEN "ok" ELSE "not-refused")
  ELSE IF out[1] = "noreturn" THEN "noreturn"
  ELSE IF out[1] = "raised" THEN "raised"
  ELSE IF out[1] = "mutated" THEN "operand-modified"
  ELSE IF exp[1] = "rl" THEN JudgeRL(exp, out, strict)
  ELSE IF exp[1] = "rlrows" THEN JudgeRLRows(exp, out, strict)
  ELSE JudgeValue(exp, out, strict)
Next == /\ l <= Len(Trace)
        /\ LET e == Trace[l]
               exp == RL2Expect(e.case)
               v == JudgeAny(exp, e.out, e.strict)
           IN IF v = "ok" THEN TRUE
              ELSE IF v = "unspec" THEN PrintT(<<"U", e.id>>)
              ELSE PrintT(<<"V", e.id, v, exp>>)
        /\ l' = l + 1
AllConsumed == TLCGet("stats").diameter - 1 = Len(Trace)
=============================================================================
