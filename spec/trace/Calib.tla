---------------------------- MODULE Calib ----------------------------
(***************************************************************************)
(* Oracle calibration (./check selftest): the level-A primitives are the  *)
(* trusted base of every verdict, so they are compared with CPython /     *)
(* numpy THEMSELVES over their whole bounded domain.  The harness writes  *)
(* a JSON table of (arguments, answer of CPython/numpy); this module      *)
(* recomputes every row with the specification's operators and prints the *)
(* rows that differ (none expected).                                       *)
(***************************************************************************)
EXTENDS NpVal, TLC, Json, IOUtils
D == JsonDeserialize(IOEnv.CALIB_FILE)
BadSlice == {i \in DOMAIN D.slice : LET e == D.slice[i] IN SliceIdx(e[1], e[2], e[3], e[4]) # e[5]}
BadNorm == {i \in DOMAIN D.norm : NormInt(D.norm[i][1], D.norm[i][2]) # D.norm[i][3]}
BadRT == {i \in DOMAIN D.rt : ResultType(D.rt[i][1], D.rt[i][2]) # D.rt[i][3]}
BadRTW == {i \in DOMAIN D.rtw : ResultTypeWeak(D.rtw[i][1], D.rtw[i][2]) # D.rtw[i][3]}
BadF2 == {i \in DOMAIN D.f2 : LET e == D.f2[i] IN OutType(e[1], e[2]) # e[5] \/ F2(e[1], e[2], e[3], e[4]) # e[6]}
BadF1 == {i \in DOMAIN D.f1 : LET e == D.f1[i] IN OutType(e[1], e[2]) # e[4] \/ F1(e[1], e[2], e[3]) # e[5]}
BadCast == {i \in DOMAIN D.cast : LET e == D.cast[i] IN Cast(e[1], e[2], e[3]) # e[4]}
BadRed == {i \in DOMAIN D.red : LET e == D.red[i] IN ReduceType(e[1], e[2]) # e[4] \/ ReduceSeq(e[1], e[2], e[3]) # e[5]}
BadSS == {i \in DOMAIN D.ss : LET e == D.ss[i] IN SearchLeft(e[1], e[2]) # e[3] \/ SearchRight(e[1], e[2]) # e[4]}
ASSUME PrintT(<<"CALIB", "slice", Cardinality(BadSlice), {D.slice[i] : i \in {j \in BadSlice : j < 50}}>>)
ASSUME PrintT(<<"CALIB", "norm", Cardinality(BadNorm), {D.norm[i] : i \in BadNorm}>>)
ASSUME PrintT(<<"CALIB", "rt", Cardinality(BadRT), {D.rt[i] : i \in BadRT}>>)
ASSUME PrintT(<<"CALIB", "rtw", Cardinality(BadRTW), {D.rtw[i] : i \in BadRTW}>>)
ASSUME PrintT(<<"CALIB", "f2", Cardinality(BadF2), {D.f2[i] : i \in {j \in BadF2 : j < 100000}}>>)
ASSUME PrintT(<<"CALIB", "f1", Cardinality(BadF1), {D.f1[i] : i \in BadF1}>>)
ASSUME PrintT(<<"CALIB", "cast", Cardinality(BadCast), {D.cast[i] : i \in BadCast}>>)
ASSUME PrintT(<<"CALIB", "red", Cardinality(BadRed), {D.red[i] : i \in BadRed}>>)
ASSUME PrintT(<<"CALIB", "ss", Cardinality(BadSS), {D.ss[i] : i \in BadSS}>>)
VARIABLE x
Init == x = 0
Next == x' = x
=======================================================================
