INIT Init
NEXT Next
POSTCONDITION AllConsumed
CHECK_DEADLOCK FALSE
