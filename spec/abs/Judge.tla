---------------------------- MODULE Judge ----------------------------
(***************************************************************************)
(* Total verdicts: compares the outcome the specification expects with    *)
(* the outcome observed on the implementation.  Never fails, never        *)
(* compares values of different kinds (TLC would abort on 3 = <<1>>):     *)
(* dispatch is on the tag, numbers are compared through NumEq.            *)
(*   "ok"           conforms                                               *)
(*   "unspec"       the property makes no claim for this case             *)
(*   "not-refused"  the spec says the call must raise; it returned        *)
(*   "raised"       the spec expects a value; the call raised             *)
(*   "noreturn"     the call did not return                                *)
(*   "kind" "dtype" "shape" "value"   the first clause that differs       *)
(* strict = TRUE compares element dtypes too (claimed by C01, C04, C14).  *)
(***************************************************************************)
EXTENDS NpVal

LOCAL JTag(x) == x[1]
AsQ(dt, v) == IF IsFlt(dt) THEN v ELSE <<v, 1>>
\* numeric equality across dtypes; NaN matches NaN; wide (limb) integers compare as tuples
\* negative zero <<0, -1>>: the specification produces it only by copying, never by arithmetic, so an expected +0 accepts
\* either sign while an expected -0 demands -0
NumEq(dtE, vE, dtO, vO) ==
  LET e == IF IsFlt(dtE) = IsFlt(dtO) THEN vE ELSE AsQ(dtE, vE)
      o == IF IsFlt(dtE) = IsFlt(dtO) THEN vO ELSE AsQ(dtO, vO)
  IN e = o \/ ((IsFlt(dtE) \/ IsFlt(dtO)) /\ e = <<0, 1>> /\ o = <<0, -1>>)
SeqEq(dtE, qE, dtO, qO) == Len(qE) = Len(qO) /\ \A i \in DOMAIN qE : NumEq(dtE, qE[i], dtO, qO[i])
RowsShapeEq(rE, rO) == Len(rE) = Len(rO) /\ \A r \in DOMAIN rE : Len(rE[r]) = Len(rO[r])
RowsEq(dtE, rE, dtO, rO) == \A r \in DOMAIN rE : SeqEq(dtE, rE[r], dtO, rO[r])
MaskedEq(dtE, qE, dtO, qO, mask) == \A i \in DOMAIN qE : mask[i] = 1 => NumEq(dtE, qE[i], dtO, qO[i])
AllClaimed(mask) == \A i \in DOMAIN mask : mask[i] = 1
AnyClaimed(mask) == \E i \in DOMAIN mask : mask[i] = 1

JudgeValue(exp, out, strict) ==
  LET te == JTag(exp)  to == JTag(out) IN
  CASE te \in {"ragged", "matrix", "array"} ->
         IF to # te THEN "kind" ELSE IF strict /\ exp[2] # out[2] THEN "dtype"
         ELSE IF ~RowsShapeEq(exp[3], out[3]) THEN "shape"
         ELSE IF RowsEq(exp[2], exp[3], out[2], out[3]) THEN "ok" ELSE "value"
    [] te = "ragged2" ->
         IF to # te THEN "kind" ELSE IF strict /\ exp[2] # out[2] THEN "dtype"
         ELSE IF ~RowsShapeEq(exp[3], out[3]) \/ ~RowsShapeEq(exp[4], out[4]) THEN "shape"
         ELSE IF RowsEq(exp[2], exp[3], out[2], out[3]) /\ RowsEq("i8", exp[4], "i8", out[4]) THEN "ok" ELSE "value"
    [] te \in {"row", "flat", "col"} ->
         IF to # te THEN "kind" ELSE IF strict /\ exp[2] # out[2] THEN "dtype"
         ELSE IF Len(exp[3]) # Len(out[3]) THEN "shape"
         ELSE IF SeqEq(exp[2], exp[3], out[2], out[3]) THEN "ok" ELSE "value"
    [] te \in {"partial", "pcol"} ->
         IF to # (IF te = "partial" THEN "flat" ELSE "col") THEN "kind"
         ELSE IF strict /\ exp[2] # out[2] THEN "dtype"
         ELSE IF Len(exp[3]) # Len(out[3]) THEN (IF AllClaimed(exp[4]) THEN "shape" ELSE "unspec")
         ELSE IF MaskedEq(exp[2], exp[3], out[2], out[3], exp[4]) THEN "ok" ELSE "value"
    [] te = "scalar" ->
         IF to # te THEN "kind" ELSE IF strict /\ exp[2] # out[2] THEN "dtype"
         ELSE IF NumEq(exp[2], exp[3], out[2], out[3]) THEN "ok" ELSE "value"
    [] te = "shape" ->                                   \* empty_like: dtype and row lengths only
         IF to # "ragged" THEN "kind" ELSE IF strict /\ exp[2] # out[2] THEN "dtype"
         ELSE IF Lens(out[3]) = exp[3] THEN "ok" ELSE "shape"
    [] te = "int" -> IF to # te THEN "kind" ELSE IF exp[2] = out[2] THEN "ok" ELSE "value"
    [] te = "ints" -> IF to # te THEN "kind" ELSE IF Len(exp[2]) # Len(out[2]) THEN "shape" ELSE IF exp[2] = out[2] THEN "ok" ELSE "value"
    [] te = "dtype" -> IF to # te THEN "kind" ELSE IF exp[2] = out[2] THEN "ok" ELSE "dtype"
    [] te = "bool" -> IF to # te THEN "kind" ELSE IF exp[2] = out[2] THEN "ok" ELSE "value"
    [] te = "pair" -> IF to # te THEN "kind"
                      ELSE IF Len(exp[2]) # Len(out[2]) \/ Len(exp[3]) # Len(out[3]) THEN "shape"
                      ELSE IF exp[2] = out[2] /\ exp[3] = out[3] THEN "ok" ELSE "value"
    [] te = "none" -> IF to = "none" THEN "ok" ELSE "kind"
    [] te = "rlenc" -> IF to # te THEN "kind" ELSE IF strict /\ exp[2] # out[2] THEN "dtype" ELSE IF exp[3] # out[3] THEN "shape"
                       ELSE IF exp = out THEN "ok" ELSE "value"           \* an encoding given by its boundaries and values (integers)
    [] OTHER -> "kind"

Judge(exp, out, strict) ==
  LET te == JTag(exp)  to == JTag(out) IN
  IF te = "unspec" THEN "unspec"
  ELSE IF te = "refused" THEN (IF to = "raised" THEN "ok" ELSE "not-refused")
  ELSE IF to = "noreturn" THEN "noreturn"
  ELSE IF to = "mutated" THEN "operand-modified"
  ELSE IF to = "raised" THEN (IF te \in {"partial", "pcol"} /\ ~AnyClaimed(exp[4]) THEN "unspec" ELSE "raised")   \* a claimed entry needs an answer
  ELSE JudgeValue(exp, out, strict)
=======================================================================
