---------------------------- MODULE RunLength2d ----------------------------
(***************************************************************************)
(* Level A of RunLength2dArray / RunLengthRaggedArray (C17): one          *)
(* run-length array per row, i.e. a sequence of dense rows.  Everything   *)
(* is specified on the dense rows; the claimed region for column ranges   *)
(* is encoded exactly and narrowly (DESIGN 5, C17).                        *)
(*   obj: <<"matrix", dt, rows>>   RunLength2dArray.from_array            *)
(*        <<"ragged", dt, rows>>   RunLengthRaggedArray.from_ragged_array *)
(*        <<"intervals", starts, ends, rowlen>>  from_intervals           *)
(***************************************************************************)
EXTENDS RunLength
DenseOf(obj) ==
  CASE RTag(obj) \in {"matrix", "ragged"} -> obj[3]
    [] RTag(obj) = "intervals" -> [i \in DOMAIN obj[2] |-> [c \in 1..obj[4] |-> B(obj[2][i] <= c - 1 /\ c - 1 < obj[3][i])]]
    [] OTHER -> <<>>
DTOf(obj) == IF RTag(obj) = "intervals" THEN "i8" ELSE obj[2]
ValidObj(obj) ==
  CASE RTag(obj) = "matrix" -> obj[3] # <<>> /\ obj[3][1] # <<>> /\ \A r \in DOMAIN obj[3] : Len(obj[3][r]) = Len(obj[3][1])
    [] RTag(obj) = "ragged" -> obj[3] # <<>> /\ \A r \in DOMAIN obj[3] : obj[3][r] # <<>>
    [] RTag(obj) = "intervals" -> obj[2] # <<>> /\ Len(obj[2]) = Len(obj[3]) /\ \A i \in DOMAIN obj[2] : 0 <= obj[2][i] /\ obj[2][i] < obj[3][i] /\ obj[3][i] <= obj[4]
    [] OTHER -> FALSE
IsRaggedVariant(obj) == RTag(obj) = "ragged"

RowSelOf(rsel, n) ==
  CASE RTag(rsel) = "int" -> LET p == NormInt(n, rsel[2]) IN IF p < 0 THEN <<"unspec", <<>>>> ELSE <<"ok", <<p>>>>
    [] RTag(rsel) = "slice" -> IF rsel[4] = 0 THEN <<"unspec", <<>>>> ELSE <<"ok", SliceIdx(n, rsel[2], rsel[3], rsel[4])>>
    [] RTag(rsel) = "list" -> LET q == [k \in DOMAIN rsel[2] |-> NormInt(n, rsel[2][k])] IN
                              IF \E k \in DOMAIN q : q[k] < 0 THEN <<"unspec", <<>>>> ELSE <<"ok", q>>
    [] RTag(rsel) = "mask" -> IF Len(rsel[2]) # n THEN <<"unspec", <<>>>> ELSE <<"ok", Ones(rsel[2])>>
    [] RTag(rsel) = "all" -> <<"ok", Range(n)>>
    [] OTHER -> <<"unspec", <<>>>>
\* a column range is claimed when the result is non-empty in every selected row and either the step is positive, or the
\* step is negative and every given bound is a valid element position of every selected row
ColRangeClaimed(rows, a, b, s0) ==
  LET s == IF s0 = NONE THEN 1 ELSE s0 IN
  /\ s # 0
  /\ \A r \in DOMAIN rows : SliceLen(Len(rows[r]), a, b, s0) > 0
  /\ (s < 0 => \A r \in DOMAIN rows : /\ (a = NONE \/ (-Len(rows[r]) <= a /\ a <= Len(rows[r]) - 1))
                                      /\ (b = NONE \/ (-Len(rows[r]) <= b /\ b <= Len(rows[r]) - 1)))
RL2GetItem(obj, rsel, csel) ==
  LET rows == DenseOf(obj)  dt == DTOf(obj)  RR == RowSelOf(rsel, Len(rows)) IN
  IF ~ValidObj(obj) \/ RR[1] # "ok" THEN R_UNSPEC
  ELSE LET R == RR[2]  sel == [k \in DOMAIN R |-> rows[R[k] + 1]] IN
       IF RTag(csel) = "none" THEN
            (IF RTag(rsel) = "int" THEN <<"rl", dt, sel[1], FALSE>>
             ELSE IF sel = <<>> THEN R_UNSPEC ELSE <<"rlrows", dt, sel>>)
       ELSE IF RTag(rsel) = "int" /\ RTag(csel) = "int" THEN
            (LET p == NormInt(Len(sel[1]), csel[2]) IN IF p < 0 THEN R_UNSPEC ELSE <<"scalar", dt, sel[1][p + 1]>>)
       ELSE IF ~IsRaggedVariant(obj) \/ RTag(rsel) = "int" \/ sel = <<>> THEN R_UNSPEC         \* column selectors: ragged variant only
       ELSE IF RTag(csel) = "int" THEN
            (IF \E k \in DOMAIN sel : NormInt(Len(sel[k]), csel[2]) < 0 THEN R_UNSPEC
             ELSE <<"flat", dt, [k \in DOMAIN sel |-> sel[k][NormInt(Len(sel[k]), csel[2]) + 1]]>>)
       ELSE IF RTag(csel) = "slice" THEN
            (IF ~ColRangeClaimed(sel, csel[2], csel[3], csel[4]) THEN R_UNSPEC
             ELSE <<"rlrows", dt, [k \in DOMAIN sel |-> SliceSeq(sel[k], csel[2], csel[3], csel[4])]>>)
       ELSE R_UNSPEC
\* reductions and functions.  name: row-wise "sum" "any" "all" "max" "mean" "argmax"; column-wise "colsum" "colmean" "colcounts" "colany";
\* "ravel" "len" "shape" "size" "to_array"
ColValsD(rows, j) == LET rr == SelectSeq(rows, LAMBDA q : Len(q) > j) IN [i \in DOMAIN rr |-> rr[i][j + 1]]
FirstMax(dt, q) == CHOOSE i \in DOMAIN q : (\A j \in DOMAIN q : ~Less(dt, q[i], q[j])) /\ (\A j \in 1..i - 1 : Less(dt, q[j], q[i]))
RL2Func(name, obj) ==
  LET rows == DenseOf(obj)  dt == DTOf(obj)  m == MaxSeq(Lens(rows))  rag == IsRaggedVariant(obj) IN
  IF ~ValidObj(obj) THEN R_UNSPEC
  ELSE CASE name = "to_array" -> IF rag THEN <<"ragged", dt, rows>> ELSE <<"matrix", dt, rows>>
         [] name = "len" -> <<"int", Len(rows)>>
         [] name = "size" -> <<"int", Total(Lens(rows))>>
         [] name = "shape" -> IF rag THEN <<"pair", <<Len(rows)>>, Lens(rows)>> ELSE <<"ints", <<Len(rows), Len(rows[1])>>>>
         [] name = "sum" -> <<"flat", ReduceType("add", dt), [r \in DOMAIN rows |-> ReduceSeq("add", dt, rows[r])]>>
         \* row / column totals of 64-bit data given as 16-bit limbs: exact modulo 2^64 (NpVal!WideSum)
         [] name = "wsum" -> IF dt \in {"i8", "u8"} /\ \A r \in DOMAIN rows : WideFits(rows[r], dt)
                             THEN <<"flat", dt, [r \in DOMAIN rows |-> WideSum(rows[r])]>> ELSE R_UNSPEC
         [] name = "wcolsum" -> IF dt \in {"i8", "u8"} /\ \A c \in 1..m : WideFits(ColValsD(rows, c - 1), dt)
                                THEN <<"flat", dt, [c \in 1..m |-> WideSum(ColValsD(rows, c - 1))]>> ELSE R_UNSPEC
         [] name = "any" -> <<"flat", "b1", [r \in DOMAIN rows |-> ReduceSeq("logical_or", dt, rows[r])]>>
         [] name = "all" -> <<"flat", "b1", [r \in DOMAIN rows |-> ReduceSeq("logical_and", dt, rows[r])]>>
         [] name = "max" -> IF ~rag THEN R_UNSPEC ELSE <<"flat", dt, [r \in DOMAIN rows |-> ReduceSeq("maximum", dt, rows[r])]>>
         [] name = "mean" -> IF ~rag \/ dt = "b1" THEN R_UNSPEC ELSE <<"flat", MeanType(dt), [r \in DOMAIN rows |-> MeanSeq(dt, rows[r])]>>
         [] name = "argmax" -> IF ~rag THEN R_UNSPEC ELSE <<"flat", "i8", [r \in DOMAIN rows |-> FirstMax(dt, rows[r]) - 1]>>
         [] name = "colsum" -> <<"rl", ReduceType("add", dt), [c \in 1..m |-> ReduceSeq("add", dt, ColValsD(rows, c - 1))], FALSE>>
         [] name = "colmean" -> IF ~rag \/ dt = "b1" THEN R_UNSPEC ELSE <<"rl", MeanType(dt), [c \in 1..m |-> MeanSeq(dt, ColValsD(rows, c - 1))], FALSE>>
         [] name = "colcounts" -> IF ~rag THEN R_UNSPEC ELSE <<"rl", "i8", [c \in 1..m |-> Len(ColValsD(rows, c - 1))], FALSE>>
         [] name = "colany" -> IF rag THEN R_UNSPEC ELSE <<"rl", "b1", [c \in 1..m |-> ReduceSeq("logical_or", dt, ColValsD(rows, c - 1))], FALSE>>
         [] name = "ravel" -> IF ~rag THEN R_UNSPEC ELSE <<"rl", dt, FlatSeq(rows), FALSE>>
         [] OTHER -> R_UNSPEC
\* ufuncs: unary, scalar either side, (n_rows, 1) column vector either side; operand order respected
RL2Ufunc(f, x, y) ==      \* operands: <<"obj", obj>> | <<"py", pk, v>> | <<"col", dt, seq>> | <<"none">>
  LET unary == RTag(y) = "none"
      o == IF RTag(x) = "obj" THEN x[2] ELSE y[2]
      rows == DenseOf(o)  dto == DTOf(o)
      other == IF RTag(x) = "obj" THEN y ELSE x
      rt == IF unary THEN dto
            ELSE IF RTag(other) = "py" THEN ResultTypeWeak(dto, other[2]) ELSE ResultType(dto, other[2])
      OV(r) == IF RTag(other) = "py" THEN (IF other[2] = "pyfloat" THEN other[3] ELSE IF IsFlt(rt) THEN <<other[3], 1>> ELSE other[3])
               ELSE Cast(other[2], rt, other[3][r])
      cell(r, c) == LET v == Cast(dto, rt, rows[r][c]) IN IF RTag(x) = "obj" THEN F2(f, rt, v, OV(r)) ELSE F2(f, rt, OV(r), v)
      tag == IF IsRaggedVariant(o) THEN "rlrows" ELSE "rlrows"
  IN IF (RTag(x) = "obj") = (RTag(y) = "obj") THEN R_UNSPEC
     ELSE IF ~ValidObj(o) THEN R_UNSPEC
     ELSE IF unary THEN (IF f \notin Unary \/ NoLoop(f, rt) \/ ~F1InRegime(f, rt) THEN R_UNSPEC
                         ELSE <<"rlrows", OutType(f, rt), [r \in DOMAIN rows |-> [c \in DOMAIN rows[r] |-> F1(f, rt, rows[r][c])]]>>)
     ELSE IF f \notin Binary \/ NoLoop(f, rt) THEN R_UNSPEC
     ELSE IF RTag(other) = "col" /\ Len(other[3]) # Len(rows) THEN R_UNSPEC
     ELSE IF RTag(other) = "py" /\ ((other[2] = "pyfloat" /\ ~IsFlt(rt)) \/ (other[2] # "pyfloat" /\ ~IsFlt(rt) /\ ~Fits(rt, other[3]))) THEN R_UNSPEC
     ELSE IF \E r \in DOMAIN rows : \E c \in DOMAIN rows[r] : ~BitInRegime(f, rt, Cast(dto, rt, rows[r][c]), OV(r)) THEN R_UNSPEC
     ELSE <<"rlrows", OutType(f, rt), [r \in DOMAIN rows |-> [c \in DOMAIN rows[r] |-> cell(r, c)]]>>
RL2Concat(objs) ==
  IF objs = <<>> \/ \E k \in DOMAIN objs : ~ValidObj(objs[k]) \/ ~IsRaggedVariant(objs[k]) \/ DTOf(objs[k]) # DTOf(objs[1]) THEN R_UNSPEC
  ELSE <<"rlrows", DTOf(objs[1]), FlatSeq([k \in DOMAIN objs |-> DenseOf(objs[k])])>>

RL2Expect(c) ==
  LET op == c[1] IN
  CASE op = "rl2_getitem" -> RL2GetItem(c[2], c[3], c[4])
    [] op = "rl2_func" -> RL2Func(c[2], c[3])
    [] op = "rl2_ufunc" -> RL2Ufunc(c[2], c[3], c[4])
    [] op = "rl2_concat" -> RL2Concat(c[2])
    [] OTHER -> RLExpect(c)
=============================================================================
