---------------------------- MODULE PySeq ----------------------------
(***************************************************************************)
(* Python / numpy sequence semantics shared by every level-A module.      *)
(* Positions are 0-based integers (as in Python); TLA+ sequences are      *)
(* 1-based, so q[p + 1] is "q[p]" in Python.                              *)
(* This module is the trusted base of every verdict; `./check selftest`   *)
(* calibrates it against CPython/numpy over its whole bounded domain.     *)
(***************************************************************************)
EXTENDS Integers, Sequences, FiniteSets

NONE == 1000000              \* Python's None inside slices (drivers never use this bound)

Mn(a, b) == IF a < b THEN a ELSE b
Mx(a, b) == IF a > b THEN a ELSE b
Abs(x) == IF x < 0 THEN -x ELSE x
Sign(x) == IF x > 0 THEN 1 ELSE IF x < 0 THEN -1 ELSE 0
B(p) == IF p THEN 1 ELSE 0

\* Python floor division and modulo (sign of the divisor); TLC's \div and % need b > 0
FloorDiv(a, b) == IF b > 0 THEN a \div b ELSE (-a) \div (-b)
PyMod(a, b) == a - b * FloorDiv(a, b)

(* slice.indices(len) followed by range(): the positions a[lo:hi:st] selects *)
SliceStart(len, a, s) == LET lo == IF s > 0 THEN 0 ELSE -1
                             hi == IF s > 0 THEN len ELSE len - 1 IN
   IF a = NONE THEN (IF s > 0 THEN lo ELSE hi) ELSE IF a < 0 THEN Mx(a + len, lo) ELSE Mn(a, hi)
SliceStop(len, b, s) == LET lo == IF s > 0 THEN 0 ELSE -1
                            hi == IF s > 0 THEN len ELSE len - 1 IN
   IF b = NONE THEN (IF s > 0 THEN hi ELSE lo) ELSE IF b < 0 THEN Mx(b + len, lo) ELSE Mn(b, hi)
SliceLen(len, a, b, s0) == LET s == IF s0 = NONE THEN 1 ELSE s0
                               st == SliceStart(len, a, s)  sp == SliceStop(len, b, s) IN
   IF s > 0 THEN (IF sp > st THEN (sp - st - 1) \div s + 1 ELSE 0)
            ELSE (IF sp < st THEN (st - sp - 1) \div (-s) + 1 ELSE 0)
SliceIdx(len, a, b, s0) == LET s == IF s0 = NONE THEN 1 ELSE s0 IN
   [i \in 1..SliceLen(len, a, b, s0) |-> SliceStart(len, a, s) + (i - 1) * s]

\* integer index: 0-based position, or -1 when Python raises IndexError
NormInt(len, i) == IF i >= 0 THEN (IF i < len THEN i ELSE -1) ELSE (IF i >= -len THEN i + len ELSE -1)

Take(q, ix) == [k \in DOMAIN ix |-> q[ix[k] + 1]]         \* q[ix] for a sequence of 0-based positions
SliceSeq(q, a, b, s) == Take(q, SliceIdx(Len(q), a, b, s))
Rev(q) == [i \in DOMAIN q |-> q[Len(q) + 1 - i]]
Range(n) == [i \in 1..n |-> i - 1]                          \* list(range(n))

RECURSIVE FlatSeq(_)
FlatSeq(rows) == IF rows = <<>> THEN <<>> ELSE Head(rows) \o FlatSeq(Tail(rows))
RECURSIVE SumSeq(_)
SumSeq(q) == IF q = <<>> THEN 0 ELSE Head(q) + SumSeq(Tail(q))
Lens(rows) == [r \in DOMAIN rows |-> Len(rows[r])]
MaxSeq(q) == IF q = <<>> THEN 0 ELSE CHOOSE m \in {q[i] : i \in DOMAIN q} : \A i \in DOMAIN q : q[i] <= m

\* positions (0-based) of the 1 entries of a 0/1 mask
RECURSIVE OnesFrom(_, _)
OnesFrom(mask, k) == IF k > Len(mask) THEN <<>>
                     ELSE (IF mask[k] = 1 THEN <<k - 1>> ELSE <<>>) \o OnesFrom(mask, k + 1)
Ones(mask) == OnesFrom(mask, 1)
\* elements of q satisfying Test, in order (SelectSeq with an index-free predicate is in Sequences)
Keep(q, mask) == Take(q, Ones(mask))

\* exclusive prefix sums: starts of rows with the given lengths; ends; total
RECURSIVE PrefixTo(_, _)
PrefixTo(lens, k) == IF k = 0 THEN 0 ELSE lens[k] + PrefixTo(lens, k - 1)
Starts(lens) == [r \in DOMAIN lens |-> PrefixTo(lens, r - 1)]
Ends(lens) == [r \in DOMAIN lens |-> PrefixTo(lens, r)]
Total(lens) == PrefixTo(lens, Len(lens))

\* np.searchsorted on a sorted integer sequence
SearchLeft(a, v) == Cardinality({i \in DOMAIN a : a[i] < v})
SearchRight(a, v) == Cardinality({i \in DOMAIN a : a[i] <= v})
\* np.bincount(x, minlength=m) for non-negative ints
BinCount(x, m) == LET top == Mx(m, IF x = <<>> THEN 0 ELSE MaxSeq(x) + 1) IN
                  [v \in 1..top |-> Cardinality({i \in DOMAIN x : x[i] = v - 1})]
NoRepeat(q) == \A i, j \in DOMAIN q : i # j => q[i] # q[j]
IsPerm(p, q) == Len(p) = Len(q) /\ \A v \in {p[i] : i \in DOMAIN p} \cup {q[i] : i \in DOMAIN q} :
                   Cardinality({i \in DOMAIN p : p[i] = v}) = Cardinality({i \in DOMAIN q : q[i] = v})
=======================================================================
