---------------------------- MODULE Ragged ----------------------------
(***************************************************************************)
(* Level A (abstract) specification of RaggedArray: C01 - C09.            *)
(*                                                                         *)
(* A ragged array is <<dt, rows>>: a dtype name and a sequence of rows,   *)
(* each a sequence of values (NpVal encodings).  Every public operation   *)
(* is an operator written from the MEANING the properties give it         *)
(* ("apply the selectors to the plain list of rows", "numpy on each       *)
(* row"); no identifier of the library's internals appears here.          *)
(*                                                                         *)
(* Outcomes are tagged tuples:                                             *)
(*   <<"ragged", dt, rows>>  <<"row", dt, seq>>  <<"flat", dt, seq>>      *)
(*   <<"scalar", dt, v>>  <<"matrix", dt, rows>>  <<"col", dt, seq>>      *)
(*   <<"int", n>>  <<"ints", seq>>  <<"pair", seq, seq>>                  *)
(*   <<"array", dt, rows>>   (content of the target after an assignment)  *)
(*   <<"partial", dt, seq, mask>>  (only entries with mask = 1 are claimed)*)
(*   <<"refused">>  (the call must raise)   <<"unspec">>  (no claim)      *)
(* Expect(case) dispatches on the operation name; it is the single oracle *)
(* used by the model-checking instances (spec/mc) and by the trace        *)
(* validators (spec/trace).                                                *)
(***************************************************************************)
EXTENDS NpVal

REFUSED == <<"refused">>
UNSPEC == <<"unspec">>
Tag(x) == x[1]
OK(q) == <<"ok", q>>                      \* partial results are <<status, payload>> pairs
DT(arr) == arr[1]
Rows(arr) == arr[2]
NRows(arr) == Len(arr[2])
LensOf(arr) == Lens(arr[2])
FlatOf(arr) == FlatSeq(arr[2])
MapRows(rows, G(_)) == [r \in DOMAIN rows |-> G(rows[r])]
MapCells(rows, G(_)) == [r \in DOMAIN rows |-> [c \in DOMAIN rows[r] |-> G(rows[r][c])]]
AllNonEmpty(rows) == \A r \in DOMAIN rows : rows[r] # <<>>
\* cut a flat sequence into rows of the given lengths
Unflatten(flat, lens) == [r \in DOMAIN lens |-> SubSeq(flat, Starts(lens)[r] + 1, Ends(lens)[r])]

(***************************************************************************)
(* C01  construction, read-back and row geometry                           *)
(***************************************************************************)
\* ctor: <<"rows", dt, rows>> | <<"flat", dt, data, lens>> | <<"matrix", dt, rows>>
Construct(ctor) ==
  CASE Tag(ctor) = "rows" -> OK(<<ctor[2], ctor[3]>>)
    [] Tag(ctor) = "flat" -> IF \E i \in DOMAIN ctor[4] : ctor[4][i] < 0 THEN <<"unspec", <<>>>>
                             ELSE IF Len(ctor[3]) # Total(ctor[4]) THEN <<"refused", <<>>>>
                             ELSE OK(<<ctor[2], Unflatten(ctor[3], ctor[4])>>)
    [] Tag(ctor) = "matrix" -> OK(<<ctor[2], ctor[3]>>)
    [] OTHER -> <<"unspec", <<>>>>
UnravelRow(lens, f) == SearchRight(Starts(lens), f) - 1            \* last row whose start <= f  (0-based)
IndexArray(lens) == FlatSeq([r \in DOMAIN lens |-> [c \in 1..lens[r] |-> r - 1]])
ReadBack(arr, reader) ==
  LET dt == DT(arr)  rows == Rows(arr)  lens == Lens(rows)  k == Tag(reader) IN
  CASE k = "len" -> <<"int", Len(rows)>>
    [] k = "size" -> <<"int", Total(lens)>>
    [] k = "lengths" -> <<"ints", lens>>
    [] k = "shape" -> <<"pair", <<Len(rows)>>, lens>>
    [] k = "dtype" -> <<"dtype", dt>>
    [] k \in {"iter", "tolist", "save_load", "copy"} -> <<"ragged", dt, rows>>
    [] k = "ravel" -> <<"flat", dt, FlatSeq(rows)>>
    [] k = "astype" -> IF \A r \in DOMAIN rows : \A c \in DOMAIN rows[r] : CastOK(dt, reader[2], rows[r][c])
                       THEN <<"ragged", reader[2], MapCells(rows, LAMBDA v : Cast(dt, reader[2], v))>>
                       ELSE UNSPEC
    [] k = "to_numpy" -> IF rows = <<>> \/ \E r \in DOMAIN rows : Len(rows[r]) # Len(rows[1]) THEN UNSPEC
                         ELSE <<"matrix", dt, rows>>
    [] k = "starts" -> <<"ints", Starts(lens)>>
    [] k = "ends" -> <<"ints", Ends(lens)>>
    [] k = "shape_size" -> <<"int", Total(lens)>>
    [] k = "index_array" -> <<"ints", IndexArray(lens)>>
    \* ravel_multi_index(rs, cs): claimed for cells that exist
    [] k = "ravel_mi" -> IF \E i \in DOMAIN reader[2] : ~(reader[2][i] \in 0..Len(lens) - 1 /\ reader[3][i] \in 0..lens[reader[2][i] + 1] - 1)
                         THEN UNSPEC
                         ELSE <<"ints", [i \in DOMAIN reader[2] |-> Starts(lens)[reader[2][i] + 1] + reader[3][i]]>>
    \* unravel_multi_index(fs): claimed for flat positions that exist
    [] k = "unravel" -> IF \E i \in DOMAIN reader[2] : ~(reader[2][i] \in 0..Total(lens) - 1) THEN UNSPEC
                        ELSE <<"pair", [i \in DOMAIN reader[2] |-> UnravelRow(lens, reader[2][i])],
                                       [i \in DOMAIN reader[2] |-> reader[2][i] - Starts(lens)[UnravelRow(lens, reader[2][i]) + 1]]>>
    [] OTHER -> UNSPEC
ExpReadBack(ctor, reader) ==
  LET c == Construct(ctor) IN
  IF c[1] = "refused" THEN REFUSED ELSE IF c[1] = "unspec" THEN UNSPEC ELSE ReadBack(c[2], reader)

(***************************************************************************)
(* C02  indexing                                                           *)
(***************************************************************************)
RowsOf(rsel, n) ==
  CASE Tag(rsel) = "int"   -> LET p == NormInt(n, rsel[2]) IN IF p < 0 THEN <<"refused", <<>>>> ELSE OK(<<p>>)
    [] Tag(rsel) = "slice" -> IF rsel[4] = 0 THEN <<"unspec", <<>>>> ELSE OK(SliceIdx(n, rsel[2], rsel[3], rsel[4]))
    [] Tag(rsel) = "list"  -> LET q == [k \in DOMAIN rsel[2] |-> NormInt(n, rsel[2][k])] IN
                                 IF \E k \in DOMAIN q : q[k] < 0 THEN <<"refused", <<>>>> ELSE OK(q)    \* an integer in a list is an integer row index
    [] Tag(rsel) = "mask"  -> IF Len(rsel[2]) # n THEN <<"unspec", <<>>>> ELSE OK(Ones(rsel[2]))
    [] Tag(rsel) = "all"   -> OK(Range(n))
    [] OTHER -> <<"unspec", <<>>>>
ColsOf(csel, len) ==
  CASE Tag(csel) \in {"none", "all"} -> OK(Range(len))
    [] Tag(csel) = "slice" -> IF csel[4] = 0 THEN <<"unspec", <<>>>> ELSE OK(SliceIdx(len, csel[2], csel[3], csel[4]))
    [] Tag(csel) = "int"   -> LET p == NormInt(len, csel[2]) IN IF p < 0 THEN <<"refused", <<>>>> ELSE OK(<<p>>)
    [] OTHER -> <<"unspec", <<>>>>
\* cells addressed: <<status, per selected row the sequence of <<row, col>> (0-based)>>
Cells(arr, rsel, csel) ==
  LET rows == arr[2]  RR == RowsOf(rsel, Len(rows)) IN
  IF RR[1] # "ok" THEN <<RR[1], <<>>>>
  ELSE LET R == RR[2]  C(k) == ColsOf(csel, Len(rows[R[k] + 1])) IN
       IF \E k \in DOMAIN R : C(k)[1] = "unspec" THEN <<"unspec", <<>>>>
       ELSE IF \E k \in DOMAIN R : C(k)[1] = "refused" THEN <<"refused", <<>>>>
       ELSE OK([k \in DOMAIN R |-> [j \in DOMAIN C(k)[2] |-> <<R[k], C(k)[2][j]>>]])
At(arr, rc) == arr[2][rc[1] + 1][rc[2] + 1]
\* kind of object an index expression yields
SelKind(rsel, csel) ==
  IF Tag(rsel) = "rmask" THEN "flat"
  ELSE IF Tag(rsel) = "int" THEN (IF Tag(csel) = "int" THEN "scalar" ELSE "row")
  ELSE IF Tag(csel) = "int" THEN "flat" ELSE "ragged"
GetItem(arr, rsel, csel) ==
  IF Tag(rsel) = "rmask" THEN
       (IF Lens(rsel[2]) # Lens(arr[2]) \/ Tag(csel) # "none" THEN UNSPEC
        ELSE <<"flat", arr[1], FlatSeq([r \in DOMAIN arr[2] |-> Keep(arr[2][r], rsel[2][r])])>>)
  ELSE LET CC == Cells(arr, rsel, csel) IN
  IF CC[1] = "refused" THEN REFUSED ELSE IF CC[1] = "unspec" THEN UNSPEC
  ELSE LET cs == CC[2]  vals == [k \in DOMAIN cs |-> [j \in DOMAIN cs[k] |-> At(arr, cs[k][j])]]
           kind == SelKind(rsel, csel) IN
       CASE kind = "scalar" -> <<"scalar", arr[1], vals[1][1]>>
         [] kind = "row" -> <<"row", arr[1], vals[1]>>
         [] kind = "flat" -> <<"flat", arr[1], FlatSeq(vals)>>
         [] OTHER -> <<"ragged", arr[1], vals>>

(***************************************************************************)
(* C03  assignment.  value: <<"scalar", v>> | <<"ragged", rows>> |        *)
(*      <<"col", seq>> | <<"flat", seq>>  (values already of the array's  *)
(*      dtype).  Result: the whole content of the target afterwards.      *)
(***************************************************************************)
SetItem(arr, rsel, csel, val) ==
  LET CC == IF Tag(rsel) = "rmask"
            THEN (IF Lens(rsel[2]) # Lens(arr[2]) \/ Tag(csel) # "none" THEN <<"unspec", <<>>>>
                  ELSE OK(<<FlatSeq([r \in DOMAIN arr[2] |-> [j \in DOMAIN Ones(rsel[2][r]) |-> <<r - 1, Ones(rsel[2][r])[j]>>]])>>))
            ELSE Cells(arr, rsel, csel)
      cs == CC[2]
      sel == SelKind(rsel, csel)
  IN IF CC[1] # "ok" THEN UNSPEC                        \* claimed only where reading accepts the index
     ELSE IF Tag(rsel) # "rmask" /\ ~NoRepeat(RowsOf(rsel, Len(arr[2]))[2]) THEN UNSPEC
     ELSE LET flat == FlatSeq(cs)
              ok == CASE Tag(val) = "scalar" -> "ok"
                      [] Tag(val) = "ragged" -> IF sel # "ragged" THEN "unspec" ELSE IF Lens(val[2]) = Lens(cs) THEN "ok" ELSE "refused"
                      [] Tag(val) = "col"    -> IF sel = "ragged" /\ Len(val[2]) = Len(cs) /\ Len(cs) > 0 THEN "ok" ELSE "unspec"
                      [] Tag(val) = "flat"   -> IF sel \in {"row", "flat"} /\ Len(val[2]) = Len(flat) /\ Len(flat) > 0 THEN "ok" ELSE "unspec"
                      [] OTHER -> "unspec"
          IN IF ok = "refused" THEN REFUSED ELSE IF ok = "unspec" THEN UNSPEC
             ELSE LET Pos(rc) == CHOOSE n \in DOMAIN flat : flat[n] = rc
                      RowNo(rc) == CHOOSE k \in DOMAIN cs : \E j \in DOMAIN cs[k] : cs[k][j] = rc
                      ColNo(rc) == CHOOSE j \in DOMAIN cs[RowNo(rc)] : cs[RowNo(rc)][j] = rc
                      NewVal(rc) == CASE Tag(val) = "scalar" -> val[2]
                                      [] Tag(val) = "ragged" -> val[2][RowNo(rc)][ColNo(rc)]
                                      [] Tag(val) = "col" -> val[2][RowNo(rc)]
                                      [] OTHER -> val[2][Pos(rc)]
                      hit == {flat[n] : n \in DOMAIN flat}
                  IN <<"array", arr[1], [r \in DOMAIN arr[2] |-> [c \in DOMAIN arr[2][r] |->
                                     IF <<r - 1, c - 1>> \in hit THEN NewVal(<<r - 1, c - 1>>) ELSE arr[2][r][c]]]>>
\* the frame condition of C03, as a predicate on any (before, after) pair: used as an invariant by MC_C03
SetItemFrame(arr, rsel, csel, after) ==
  LET CC == Cells(arr, rsel, csel)
      hit == IF CC[1] = "ok" THEN {FlatSeq(CC[2])[n] : n \in DOMAIN FlatSeq(CC[2])} ELSE {} IN
  /\ Lens(after[3]) = Lens(arr[2])
  /\ \A r \in DOMAIN arr[2] : \A c \in DOMAIN arr[2][r] : <<r - 1, c - 1>> \notin hit => after[3][r][c] = arr[2][r][c]

(***************************************************************************)
(* C04  element-wise ufuncs                                                *)
(* operand: <<"ra", arr>> | <<"np", dt, v>> | <<"py", pk, v>> |           *)
(*          <<"col", dt, seq>> | <<"collist", pk, seq>> | <<"none">>      *)
(***************************************************************************)
OpDT(o) == CASE Tag(o) = "ra" -> DT(o[2]) [] Tag(o) \in {"np", "col"} -> o[2] [] Tag(o) = "collist" -> PyDType(o[2]) [] OTHER -> "b1"
OpWeak(o) == Tag(o) = "py"
\* value of operand o for cell (r, c)
OpVal(o, r, c) == CASE Tag(o) = "ra" -> o[2][2][r][c] [] Tag(o) \in {"np", "py"} -> o[3] [] OTHER -> o[3][r]
\* value of a python scalar as a value of dtype rt
PyVal(pk, rt, v) == IF pk = "pyfloat" THEN v ELSE IF IsFlt(rt) THEN <<v, 1>> ELSE v
Ufunc(f, a, b) ==
  LET unary == Tag(b) = "none"
      ra == IF Tag(a) = "ra" THEN a ELSE b               \* an operand that fixes the shape
      lens == LensOf(ra[2])
      rt == IF unary THEN OpDT(a)
            ELSE IF OpWeak(a) THEN ResultTypeWeak(OpDT(b), a[2])
            ELSE IF OpWeak(b) THEN ResultTypeWeak(OpDT(a), b[2])
            ELSE ResultType(OpDT(a), OpDT(b))
      V(o, r, c) == IF OpWeak(o) THEN PyVal(o[2], rt, o[3]) ELSE Cast(OpDT(o), rt, OpVal(o, r, c))
      badcol(o) == (Tag(o) \in {"col", "collist"} /\ Len(o[3]) # Len(lens)) \/ (Tag(o) = "collist" /\ o[3] = <<>>)
      badpy(o) == OpWeak(o) /\ ( (o[2] = "pyfloat" /\ ~IsFlt(rt)) \/ (o[2] # "pyfloat" /\ ~IsFlt(rt) /\ ~Fits(rt, o[3])) )
  IN IF Tag(a) # "ra" /\ Tag(b) # "ra" THEN UNSPEC
     ELSE IF unary THEN
          (IF f \notin Unary THEN UNSPEC ELSE IF NoLoop(f, rt) THEN REFUSED ELSE IF ~F1InRegime(f, rt) THEN UNSPEC
           ELSE <<"ragged", OutType(f, rt), MapCells(a[2][2], LAMBDA v : F1(f, rt, v))>>)
     ELSE IF f \notin Binary THEN UNSPEC
     ELSE IF Tag(a) = "ra" /\ Tag(b) = "ra" /\ LensOf(a[2]) # LensOf(b[2]) THEN REFUSED
     ELSE IF badcol(a) \/ badcol(b) \/ badpy(a) \/ badpy(b) THEN UNSPEC
     ELSE IF NoLoop(f, rt) THEN REFUSED
     \* bit operations are specified through 16-bit patterns: wider operands must lie in the 16-bit signed range
     ELSE IF \E r \in DOMAIN lens : \E c \in 1..lens[r] : ~BitInRegime(f, rt, V(a, r, c), V(b, r, c)) THEN UNSPEC
     ELSE <<"ragged", OutType(f, rt),
            [r \in DOMAIN lens |-> [c \in 1..lens[r] |-> F2(f, rt, V(a, r, c), V(b, r, c))]]>>

(***************************************************************************)
(* C05  row reductions                                                     *)
(* name: <<"n", "sum" | "prod" | "any" | "all" | "max" | "min" | "mean"   *)
(*       | "argmax" | "argmin">>, or <<"r", f>> for np.<f>.reduce;        *)
(* axis: -1 | 1 | NONE; keepdims: 0 | 1                                   *)
(***************************************************************************)
RedUfunc(name) == CASE name = "sum" -> "add" [] name = "prod" -> "multiply" [] name = "any" -> "logical_or"
                    [] name = "all" -> "logical_and" [] name = "max" -> "maximum" [] name = "min" -> "minimum" [] OTHER -> "?"
\* position of the first extreme element
ArgExt(dt, q, wantmax) ==
  CHOOSE i \in DOMAIN q : /\ \A j \in DOMAIN q : IF wantmax THEN ~Less(dt, q[i], q[j]) ELSE ~Less(dt, q[j], q[i])
                          /\ \A j \in 1..i - 1 : IF wantmax THEN Less(dt, q[j], q[i]) ELSE Less(dt, q[i], q[j])
HasNaN(dt, q) == IsFlt(dt) /\ \E i \in DOMAIN q : IsNaN(q[i])
Reduce(nm, arr, axis, keepdims) ==
  LET dt == DT(arr)  rows == Rows(arr)
      isr == nm[1] = "r"                                      \* <<"r", f>>: np.<f>.reduce;  <<"n", name>>: named reduction
      name == nm[2]
      f == IF isr THEN nm[2] ELSE RedUfunc(name)
      simple == isr \/ name \in {"sum", "prod", "any", "all", "max", "min"}
      mask == [r \in DOMAIN rows |-> B(rows[r] # <<>> \/ (simple /\ HasIdentity(f)))]
      shape(dto, q) == IF keepdims = 1 THEN <<"pcol", dto, q, mask>> ELSE <<"partial", dto, q, mask>>
  IN IF simple /\ f \notin Binary THEN UNSPEC
     ELSE IF simple /\ NoLoop(f, ReduceType(f, dt)) THEN (IF FlatOf(arr) = <<>> THEN UNSPEC ELSE REFUSED)
     ELSE IF simple /\ ~IdentityInRegime(f, dt) THEN UNSPEC
     ELSE IF axis = NONE THEN
        (LET flat == FlatOf(arr) IN
         IF isr THEN UNSPEC
         ELSE IF simple THEN (IF flat = <<>> /\ ~HasIdentity(f) THEN UNSPEC ELSE <<"scalar", ReduceType(f, dt), ReduceSeq(f, dt, flat)>>)
         ELSE IF name = "mean" THEN (IF flat = <<>> THEN UNSPEC ELSE <<"scalar", MeanType(dt), MeanSeq(dt, flat)>>)
         ELSE UNSPEC)
     ELSE IF simple THEN shape(ReduceType(f, dt), [r \in DOMAIN rows |-> IF mask[r] = 1 THEN ReduceSeq(f, dt, rows[r]) ELSE 0])
     ELSE IF name = "mean" THEN shape(MeanType(dt), [r \in DOMAIN rows |-> IF mask[r] = 1 THEN MeanSeq(dt, rows[r]) ELSE 0])
     ELSE IF name \in {"argmax", "argmin"} THEN
          (IF ~AllNonEmpty(rows) \/ rows = <<>> \/ \E r \in DOMAIN rows : HasNaN(dt, rows[r]) THEN UNSPEC
           ELSE shape("i8", [r \in DOMAIN rows |-> ArgExt(dt, rows[r], name = "argmax") - 1]))
     ELSE UNSPEC

(***************************************************************************)
(* C07  row-wise scans and reorderings                                     *)
(***************************************************************************)
\* stable insertion sort by SortLess (numpy order, NaN last)
RECURSIVE InsertSorted(_, _, _)
InsertSorted(dt, q, v) == IF q = <<>> THEN <<v>>
                          ELSE IF SortLess(dt, v, Head(q)) THEN <<v>> \o q ELSE <<Head(q)>> \o InsertSorted(dt, Tail(q), v)
RECURSIVE SortRow(_, _)
SortRow(dt, q) == IF q = <<>> THEN <<>> ELSE InsertSorted(dt, SortRow(dt, SubSeq(q, 1, Len(q) - 1)), q[Len(q)])
\* sorted distinct values and multiplicities
UniqueRow(dt, q) == LET s == SortRow(dt, q) IN SelectSeq([i \in DOMAIN s |-> <<s[i], i>>], LAMBDA p : p[2] = 1 \/ s[p[2] - 1] # p[1])
UniqueVals(dt, q) == LET u == UniqueRow(dt, q) IN [i \in DOMAIN u |-> u[i][1]]
UniqueCounts(dt, q) == LET u == UniqueVals(dt, q) IN [i \in DOMAIN u |-> Cardinality({j \in DOMAIN q : q[j] = u[i]})]
\* np.diff of one row: bool uses not_equal, everything else subtract in the row's dtype
Diff1(dt, q) == [i \in 1..Mx(Len(q) - 1, 0) |-> IF dt = "b1" THEN B(q[i + 1] # q[i]) ELSE F2("subtract", dt, q[i + 1], q[i])]
RECURSIVE DiffN(_, _, _)
DiffN(dt, q, n) == IF n = 0 THEN q ELSE DiffN(dt, Diff1(dt, q), n - 1)
\* ufunc.accumulate of one row.  add promotes like a reduction; subtract / xor stay in the row's dtype
AccRow(f, dt, q) ==
  IF f = "add" THEN AccSeq("add", dt, q)
  ELSE [i \in DOMAIN q |-> LET RECURSIVE go(_, _)
                               go(k, acc) == IF k > i THEN acc ELSE go(k + 1, F2(f, dt, acc, q[k]))
                           IN go(2, q[1])]
AccOutType(f, dt) == IF f = "add" THEN ReduceType("add", dt) ELSE dt
Scan(name, arr, n) ==
  LET dt == DT(arr)  rows == Rows(arr)  hasnan == \E r \in DOMAIN rows : HasNaN(dt, rows[r]) IN
  CASE name = "cumsum" -> IF IsInt(dt) THEN <<"ragged", ReduceType("add", dt), MapRows(rows, LAMBDA q : AccSeq("add", dt, q))>>
                          ELSE IF FlatOf(arr) = <<>> THEN UNSPEC ELSE REFUSED
    [] name \in {"acc_add", "acc_subtract", "acc_bitwise_xor"} ->
           LET f == CASE name = "acc_add" -> "add" [] name = "acc_subtract" -> "subtract" [] OTHER -> "bitwise_xor" IN
           IF NoLoop(f, dt) THEN (IF FlatOf(arr) = <<>> THEN UNSPEC ELSE REFUSED)
           ELSE <<"ragged", AccOutType(f, dt), MapRows(rows, LAMBDA q : AccRow(f, dt, q))>>
    [] name = "sort" -> IF hasnan THEN UNSPEC ELSE <<"ragged", dt, MapRows(rows, LAMBDA q : SortRow(dt, q))>>
    [] name = "unique" -> IF hasnan THEN UNSPEC ELSE <<"ragged", dt, MapRows(rows, LAMBDA q : UniqueVals(dt, q))>>
    [] name = "unique_counts" -> IF hasnan THEN UNSPEC
                                 ELSE <<"ragged2", dt, MapRows(rows, LAMBDA q : UniqueVals(dt, q)), MapRows(rows, LAMBDA q : UniqueCounts(dt, q))>>
    [] name = "diff" -> IF n < 0 THEN UNSPEC ELSE <<"ragged", dt, MapRows(rows, LAMBDA q : DiffN(dt, q, n))>>
    [] OTHER -> UNSPEC

(***************************************************************************)
(* C08  structural array functions                                         *)
(***************************************************************************)
ConcatRows(arrs) == FlatSeq([k \in DOMAIN arrs |-> Rows(arrs[k])])
ConcatCols(arrs) == [r \in DOMAIN Rows(arrs[1]) |-> FlatSeq([k \in DOMAIN arrs |-> Rows(arrs[k])[r]])]
RECURSIVE CatDTFrom(_, _, _)
CatDTFrom(arrs, k, acc) == IF k > Len(arrs) THEN acc ELSE CatDTFrom(arrs, k + 1, ResultType(acc, DT(arrs[k])))
CatDT(arrs) == CatDTFrom(arrs, 2, DT(arrs[1]))                      \* numpy promotes the operands to their common dtype
CatCastOK(arrs) == \A k \in DOMAIN arrs : \A r \in DOMAIN Rows(arrs[k]) : \A c \in DOMAIN Rows(arrs[k])[r] : CastOK(DT(arrs[k]), CatDT(arrs), Rows(arrs[k])[r][c])
Promoted(arrs) == [k \in DOMAIN arrs |-> <<CatDT(arrs), MapCells(Rows(arrs[k]), LAMBDA v : Cast(DT(arrs[k]), CatDT(arrs), v))>>]
Concat(arrs, axis) ==
  IF arrs = <<>> THEN UNSPEC
  ELSE IF ~CatCastOK(arrs) THEN UNSPEC
  ELSE IF axis = 0 THEN <<"ragged", CatDT(arrs), ConcatRows(Promoted(arrs))>>
  ELSE IF \E k \in DOMAIN arrs : NRows(arrs[k]) # NRows(arrs[1]) THEN UNSPEC
  ELSE IF NRows(arrs[1]) = 0 THEN UNSPEC
  ELSE <<"ragged", CatDT(arrs), ConcatCols(Promoted(arrs))>>
Like(kind, arr, dt) ==
  LET d == IF dt = "same" THEN DT(arr) ELSE dt IN
  CASE kind = "zeros" -> <<"ragged", d, MapCells(Rows(arr), LAMBDA v : Zero(d))>>
    [] kind = "ones" -> <<"ragged", d, MapCells(Rows(arr), LAMBDA v : One(d))>>
    [] kind = "empty" -> <<"shape", d, LensOf(arr)>>          \* content unspecified: only dtype and row lengths
    [] OTHER -> UNSPEC
Pad(arr, side, fill) ==
  LET rows == Rows(arr)  m == MaxSeq(Lens(rows)) IN
  IF rows = <<>> THEN UNSPEC
  ELSE <<"matrix", DT(arr), [r \in DOMAIN rows |->
          LET p == [c \in 1..m - Len(rows[r]) |-> fill] IN IF side = "right" THEN rows[r] \o p ELSE p \o rows[r]]>>
Nonzero(arr) ==
  LET rows == Rows(arr)
      cells == FlatSeq([r \in DOMAIN rows |-> SelectSeq([c \in DOMAIN rows[r] |-> <<r - 1, c - 1, rows[r][c]>>],
                                                        LAMBDA t : Truth(DT(arr), t[3]))])
  IN <<"pair", [i \in DOMAIN cells |-> cells[i][1]], [i \in DOMAIN cells |-> cells[i][2]]>>
\* where(mask, x, y): x ragged of the mask's shape; y ragged of the mask's shape or <<"py", v>>
Where(mask, x, y) ==
  IF DT(mask) # "b1" \/ LensOf(x) # LensOf(mask) THEN UNSPEC
  ELSE IF Tag(y) = "ra" /\ (LensOf(y[2]) # LensOf(mask) \/ DT(y[2]) # DT(x)) THEN UNSPEC
  ELSE IF Tag(y) \notin {"ra", "py"} THEN UNSPEC
  ELSE <<"ragged", DT(x), [r \in DOMAIN Rows(mask) |-> [c \in DOMAIN Rows(mask)[r] |->
            IF Rows(mask)[r][c] = 1 THEN Rows(x)[r][c] ELSE IF Tag(y) = "ra" THEN Rows(y[2])[r][c] ELSE y[2]]]>>
Subset(arr, mask) ==
  IF DT(mask) # "b1" THEN REFUSED
  ELSE IF LensOf(mask) # LensOf(arr) THEN UNSPEC
  ELSE <<"ragged", DT(arr), [r \in DOMAIN Rows(arr) |-> Keep(Rows(arr)[r], Rows(mask)[r])]>>
\* ragged_slice(input, starts, ends): input <<"ra", arr>> | <<"1d", dt, seq>> | <<"2d", dt, rows>>; starts/ends <<"none">> | <<"vec", seq>>
RaggedSlice(input, starts, ends) ==
  LET n == IF Tag(starts) = "vec" THEN Len(starts[2]) ELSE IF Tag(ends) = "vec" THEN Len(ends[2]) ELSE 0
      dt == IF Tag(input) = "ra" THEN DT(input[2]) ELSE input[2]
      base == IF Tag(input) = "ra" THEN Rows(input[2]) ELSE IF Tag(input) = "2d" THEN input[3] ELSE [r \in 1..n |-> input[3]]
      nr == Len(base)
      okvec(v) == Tag(v) = "none" \/ Len(v[2]) = nr
      S(r) == IF Tag(starts) = "none" THEN 0 ELSE starts[2][r]
      E(r) == IF Tag(ends) = "none" THEN Len(base[r]) ELSE ends[2][r]
      inrow(r) == S(r) \in 0..Len(base[r]) /\ E(r) \in -Len(base[r])..Len(base[r])
  IN IF Tag(input) = "1d" /\ (Tag(starts) = "none" \/ Tag(ends) = "none") THEN UNSPEC      \* a 1-D input has no rows of its own
     ELSE IF ~okvec(starts) \/ ~okvec(ends) THEN UNSPEC
     ELSE IF \E r \in 1..nr : ~inrow(r) THEN UNSPEC
     ELSE <<"ragged", dt, [r \in 1..nr |-> SliceSeq(base[r], S(r), E(r), NONE)]>>

(***************************************************************************)
(* C09  column aggregates                                                  *)
(***************************************************************************)
ColVals(rows, j) == LET rr == SelectSeq(rows, LAMBDA q : Len(q) > j) IN [i \in DOMAIN rr |-> rr[i][j + 1]]
Col(name, arr, j) ==
  LET dt == DT(arr)  rows == Rows(arr)  m == MaxSeq(Lens(rows)) IN
  IF m = 0 THEN UNSPEC                                           \* no non-empty row: no claim
  \* float16 columns: the totals / means are the exact ones where float16 can hold them (no claim about rounding or overflow)
  ELSE CASE name = "colsum" -> LET s == [c \in 1..m |-> ReduceSeq("add", dt, ColVals(rows, c - 1))] IN
                               IF dt = "f2" /\ \E c \in 1..m : ~RepF2(s[c]) THEN UNSPEC ELSE <<"flat", ReduceType("add", dt), s>>
         [] name = "colcounts" -> <<"flat", "i8", [c \in 1..m |-> Len(ColVals(rows, c - 1))]>>
         [] name = "colmean" -> LET s == [c \in 1..m |-> MeanSeq(dt, ColVals(rows, c - 1))] IN
                                IF dt = "f2" /\ \E c \in 1..m : ~RepF2(s[c]) THEN UNSPEC ELSE <<"flat", MeanType(dt), s>>
         [] name = "colvalues" -> IF j \in 0..m - 1 THEN <<"flat", dt, ColVals(rows, j)>> ELSE UNSPEC
         \* column totals of a 64-bit array whose values are given as 16-bit limbs: exact modulo 2^64 (NpVal!WideSum)
         [] name = "wcolsum" -> IF dt \in {"i8", "u8"} /\ \A c \in 1..m : WideFits(ColVals(rows, c - 1), dt)
                                THEN <<"flat", dt, [c \in 1..m |-> WideSum(ColVals(rows, c - 1))]>> ELSE UNSPEC
         [] OTHER -> UNSPEC

(***************************************************************************)
(* pairwise element indexing (extension)                                   *)
(***************************************************************************)
PairPos(arr, rows, cols) ==        \* 1-based <<row, col>> of every pair, <<0, 0>> where the pair does not exist
  [k \in DOMAIN rows |-> LET r == NormInt(NRows(arr), rows[k]) IN
                          IF r < 0 THEN <<0, 0>> ELSE LET c == NormInt(Len(Rows(arr)[r + 1]), cols[k]) IN IF c < 0 THEN <<0, 0>> ELSE <<r + 1, c + 1>>]
PairsGet(arr, rows, cols) ==
  IF rows = <<>> \/ Len(rows) # Len(cols) THEN UNSPEC
  ELSE LET pos == PairPos(arr, rows, cols) IN
       IF \E k \in DOMAIN pos : pos[k] = <<0, 0>> THEN REFUSED
       ELSE <<"flat", DT(arr), [k \in DOMAIN pos |-> Rows(arr)[pos[k][1]][pos[k][2]]]>>
\* val: <<"scalar", v>> | <<"flat", seq>> (one value per pair); pairs addressing the same cell twice are outside the claim
PairsSet(arr, rows, cols, val) ==
  IF rows = <<>> \/ Len(rows) # Len(cols) THEN UNSPEC
  ELSE LET pos == PairPos(arr, rows, cols) IN
       IF \E k \in DOMAIN pos : pos[k] = <<0, 0>> THEN REFUSED
       ELSE IF \E j, k \in DOMAIN pos : j # k /\ pos[j] = pos[k] THEN UNSPEC
       ELSE IF Tag(val) = "flat" /\ Len(val[2]) # Len(rows) THEN UNSPEC
       ELSE <<"array", DT(arr), [r \in DOMAIN Rows(arr) |-> [c \in DOMAIN Rows(arr)[r] |->
                 IF \E k \in DOMAIN pos : pos[k] = <<r, c>>
                 THEN (LET k == CHOOSE k \in DOMAIN pos : pos[k] = <<r, c>> IN IF Tag(val) = "scalar" THEN val[2] ELSE val[2][k])
                 ELSE Rows(arr)[r][c]]]>>

(***************************************************************************)
(* dispatcher                                                              *)
(***************************************************************************)
\* 32/64-bit unsigned results that went below zero wrapped to values outside the modelled integer range: no verdict
RegimeGuard(out) ==
  IF Tag(out) \in {"ragged", "array"} /\ Kind(out[2]) = "u" /\ Bits(out[2]) > 16
     /\ \E r \in DOMAIN out[3] : \E c \in DOMAIN out[3][r] : out[3][r][c] < 0
  THEN UNSPEC
  \* float16 results are claimed where float16 holds them exactly (the specification computes in exact rationals)
  ELSE IF Tag(out) \in {"ragged", "array"} /\ out[2] = "f2"
          /\ \E r \in DOMAIN out[3] : \E c \in DOMAIN out[3][r] : ~RepF2(out[3][r][c])
  THEN UNSPEC ELSE out
Expect(c) ==
  LET op == c[1] IN
  CASE op = "readback" -> ExpReadBack(c[2], c[3])
    [] op = "getitem" -> GetItem(c[2], c[3], c[4])
    [] op = "setitem" -> SetItem(c[2], c[3], c[4], c[5])
    [] op = "ufunc" -> RegimeGuard(Ufunc(c[2], c[3], c[4]))
    [] op = "reduce" -> Reduce(c[2], c[3], c[4], c[5])
    [] op = "scan" -> RegimeGuard(Scan(c[2], c[3], c[4]))
    [] op = "concat" -> Concat(c[2], c[3])
    [] op = "like" -> Like(c[2], c[3], c[4])
    [] op = "pad" -> Pad(c[2], c[3], c[4])
    [] op = "nonzero" -> Nonzero(c[2])
    [] op = "where" -> Where(c[2], c[3], c[4])
    [] op = "subset" -> Subset(c[2], c[3])
    [] op = "ragged_slice" -> RaggedSlice(c[2], c[3], c[4])
    [] op = "col" -> Col(c[2], c[3], c[4])
    \* pairwise element indexing ra[rows, cols] with two equally long integer sequences (beyond the index grammar of C02 / C03: part of
    \* the library's behaviour, specified the numpy way): the k-th result is the cell (rows[k], cols[k]); any pair that does not exist is refused
    \* column totals of a TALL array in compressed form: n copies of one row of a 16- / 32-bit dtype (values as limbs); the totals are
    \* n times the row, far beyond 2^53 for millions of rows, and always inside 64 bits
    [] op = "wcolsum_rep" -> IF c[2] \notin {"i2", "u2", "i4", "u4"} \/ c[3] = <<>> \/ c[4] < 1 \/ c[4] > 4194304 THEN UNSPEC
                             ELSE <<"flat", ReduceType("add", c[2]), [j \in DOMAIN c[3] |-> WideMulN(c[3][j], c[4])]>>
    [] op = "getpairs" -> PairsGet(c[2], c[3], c[4])
    [] op = "setpairs" -> PairsSet(c[2], c[3], c[4], c[5])
    \* 64-bit row totals / running totals of an array whose values are 16-bit limbs: exact modulo 2^64 (NpVal!WideSum)
    [] op = "wreduce" -> IF DT(c[3]) \notin {"i8", "u8"} THEN UNSPEC
                         ELSE IF c[2] \in {"sum", "cumsum", "total"} /\ (~WideFits(FlatOf(c[3]), DT(c[3]))
                            \/ \E r \in DOMAIN Rows(c[3]) : \E i \in DOMAIN Rows(c[3])[r] : ~WideFits(SubSeq(Rows(c[3])[r], 1, i), DT(c[3]))) THEN UNSPEC
                         ELSE IF c[2] = "sum" THEN <<"flat", DT(c[3]), MapRows(Rows(c[3]), LAMBDA q : WideSum(q))>>
                         ELSE IF c[2] = "cumsum" THEN <<"ragged", DT(c[3]), MapRows(Rows(c[3]), LAMBDA q : [i \in DOMAIN q |-> WideSum(SubSeq(q, 1, i))])>>
                         ELSE IF c[2] = "total" THEN <<"scalar", DT(c[3]), WideSum(FlatOf(c[3]))>>
                         ELSE IF c[2] = "sort" THEN <<"ragged", DT(c[3]), MapRows(Rows(c[3]), LAMBDA q : WideSort(DT(c[3]), q))>>
                         ELSE IF c[2] = "unique" THEN <<"ragged", DT(c[3]), MapRows(Rows(c[3]), LAMBDA q : LET u == WideUnique(DT(c[3]), q) IN [i \in DOMAIN u |-> u[i][1]])>>
                         ELSE UNSPEC
    [] OTHER -> UNSPEC
=======================================================================
