---------------------------- MODULE RaggedHeap ----------------------------
(***************************************************************************)
(* The RaggedArray API as a state machine over a heap of array handles:   *)
(* programs are behaviours (C06, C10, the frame half of C03).             *)
(*                                                                         *)
(* LEVEL A (abstract):                                                     *)
(*   heap  : Seq(<<dt, rows>>)   the one definite content of every handle *)
(*   alias : Seq(handle)         only a[...] / a[()] alias their source   *)
(* A derived handle has no memory of where it came from (C06); a Read     *)
(* changes nothing (C10); an Assign changes the target's aliases only     *)
(* (C03/C06).                                                              *)
(*                                                                         *)
(* LEVEL M (mechanism, shaped like the implementation):                    *)
(*   bufs : Seq(Seq(val))        flat buffers, shared between an array and *)
(*                               every selection not yet materialised      *)
(*   view : Seq(<<buf, pos, contig>>)  pos = rows of 1-based positions    *)
(*                               into bufs[buf]; contig = materialised     *)
(* One action per critical section of the code: a selection creates a     *)
(* view on the SAME buffer; Materialise is a separate internal step that  *)
(* the code performs inside reads, ufuncs, array functions and            *)
(* assignments; Assign scatters into the (possibly shared) buffer.        *)
(* Named deviation PendingViewSeesParentWrite: a pending view whose buffer*)
(* is scattered into no longer denotes its abstract content; the ghost    *)
(* `stale` collects such handles (closed under selection).                *)
(* Refinement checked by TLC:  \A h \notin stale : MRows(h) = heap[h].     *)
(*                                                                         *)
(* WHEN the code materialises (which reads do, which do not) is modelled  *)
(* exactly, and `stale` / Mech are exact predictions; but a verdict must  *)
(* not depend on that timing being modelled perfectly.  The conservative  *)
(* ghost `mayst` (handles that MAY be reading a buffer some assignment    *)
(* scattered into, under ANY materialisation timing: anc[h] = handles     *)
(* whose buffer h may still share, cleared only by what certainly         *)
(* materialises, an assignment to h) over-approximates `stale`            *)
(* (StaleWithinMayStale).  A mismatch on a handle outside `mayst` is a     *)
(* violation; inside it, it is the named deviation.                        *)
(***************************************************************************)
EXTENDS Ragged, TLC

VARIABLES heap, alias, bufs, view, stale, last, anc, mayst
hvars == <<heap, alias, bufs, view, stale, last, anc, mayst>>

Handles == DOMAIN heap
Buf(h) == view[h][1]
Pos(h) == view[h][2]
Contig(h) == view[h][3]
\* level-M content of a handle
MRowsOf(bs, v) == [r \in DOMAIN v[2] |-> [c \in DOMAIN v[2][r] |-> bs[v[1]][v[2][r][c]]]]
MRows(h) == MRowsOf(bufs, view[h])
Mech == [h \in Handles |-> <<heap[h][1], MRows(h)>>]
\* a freshly built contiguous array: own buffer, positions 1..size cut into rows
FreshView(b, rows) == <<b, Unflatten([i \in 1..Total(Lens(rows)) |-> i], Lens(rows)), TRUE>>

\* ---- Materialise: gather into a new buffer (what ravel()/_flatten_myself does).  Returns <<bufs', view'>>.
MatIn(bs, vw, h) ==
  IF vw[h][3] THEN <<bs, vw>>
  ELSE LET rows == MRowsOf(bs, vw[h]) IN
       <<Append(bs, FlatSeq(rows)), [vw EXCEPT ![h] = FreshView(Len(bs) + 1, rows)]>>
RECURSIVE MatAll(_, _, _)
MatAll(bs, vw, hs) == IF hs = <<>> THEN <<bs, vw>> ELSE LET m == MatIn(bs, vw, Head(hs)) IN MatAll(m[1], m[2], Tail(hs))

IsWhole(rs, cs) == Tag(rs) = "all" /\ Tag(cs) = "none"
\* index expressions whose evaluation materialises the array they are applied to
SelMaterialises(rs, cs) == IsWhole(rs, cs) \/ Tag(rs) = "rmask" \/ (Tag(rs) = "int" /\ Tag(cs) \in {"none", "int"})

\* level-M array of a handle: what the implementation's buffers actually hold for it
MArr(h) == <<heap[h][1], MRows(h)>>
\* append a fresh, contiguous, unaliased handle.  arr = the content level A demands; marr = the content computed from what the
\* buffers hold (differs only downstream of the named deviation); m = <<bufs, view>> to start from; src = operand handles
NewFresh(arr, marr, m, src) ==
  /\ heap' = Append(heap, arr)
  /\ alias' = Append(alias, Len(heap) + 1)
  /\ bufs' = Append(m[1], FlatOf(marr))
  /\ view' = Append(m[2], FreshView(Len(m[1]) + 1, Rows(arr)))
  /\ stale' = IF src \cap stale # {} THEN stale \cup {Len(heap) + 1} ELSE stale
  /\ anc' = Append(anc, {})
  /\ mayst' = IF src \cap mayst # {} THEN mayst \cup {Len(heap) + 1} ELSE mayst

(***************************************************************************)
(* actions                                                                 *)
(***************************************************************************)
New(arr) ==
  /\ NewFresh(arr, arr, <<bufs, view>>, {})
  /\ last' = <<"new", Len(heap) + 1>>

Select(h, rs, cs) ==
  LET out == GetItem(heap[h], rs, cs)
      m == IF SelMaterialises(rs, cs) THEN MatIn(bufs, view, h) ELSE <<bufs, view>>
      k == Len(heap) + 1
  IN IF Tag(out) = "ragged" THEN
        /\ heap' = Append(heap, <<out[2], out[3]>>)
        /\ alias' = Append(alias, IF IsWhole(rs, cs) THEN alias[h] ELSE k)
        /\ bufs' = m[1]
        /\ view' = Append(m[2], IF IsWhole(rs, cs) THEN m[2][h]
                                ELSE <<m[2][h][1], GetItem(<<"i8", m[2][h][2]>>, rs, cs)[3], FALSE>>)
        /\ stale' = IF h \in stale THEN stale \cup {k} ELSE stale
        /\ anc' = Append(anc, IF IsWhole(rs, cs) THEN anc[h] ELSE anc[h] \cup {g \in Handles : alias[g] = alias[h]})
        /\ mayst' = IF h \in mayst THEN mayst \cup {k} ELSE mayst
        /\ last' = <<"new", k>>
     ELSE \* a row, a flat array, a scalar, a refusal: an observation; the array may be materialised by it
        /\ UNCHANGED <<heap, alias, stale, anc, mayst>>
        /\ bufs' = m[1] /\ view' = m[2]                          \* (the code materialises before it checks the index)
        /\ last' = <<"obs", out, GetItem(MArr(h), rs, cs)>>      \* what level A demands, what the buffers will show

Assign(h, rs, cs, val) ==
  LET out == SetItem(heap[h], rs, cs, val)
      m == MatIn(bufs, view, h)                                   \* __setitem__ starts with self.ravel()
      b == m[2][h][1]
      \* positions written: the same assignment applied to the position rows tells which buffer cells are hit
      posarr == <<"i8", m[2][h][2]>>
      cells == IF Tag(rs) = "rmask"
               THEN FlatSeq([r \in DOMAIN heap[h][2] |-> [j \in DOMAIN Ones(rs[2][r]) |-> <<r - 1, Ones(rs[2][r])[j]>>]])
               ELSE FlatSeq(Cells(heap[h], rs, cs)[2])
      newrows == out[3]
      nb == [p \in DOMAIN m[1][b] |->
               IF \E n \in DOMAIN cells : At(posarr, cells[n]) = p
               THEN LET n == CHOOSE n \in DOMAIN cells : At(posarr, cells[n]) = p IN newrows[cells[n][1] + 1][cells[n][2] + 1]
               ELSE m[1][b][p]]
  IN IF Tag(out) = "array" THEN
        /\ heap' = [g \in Handles |-> IF alias[g] = alias[h] THEN <<out[2], out[3]>> ELSE heap[g]]
        /\ bufs' = [m[1] EXCEPT ![b] = nb]
        /\ view' = m[2]
        /\ stale' = stale \cup {g \in Handles : alias[g] # alias[h] /\ m[2][g][1] = b}
        /\ anc' = [anc EXCEPT ![h] = {}]                         \* an assignment certainly materialises its target
        /\ mayst' = mayst \cup {g \in Handles : alias[g] # alias[h] /\ \E x \in anc[g] : alias[x] = alias[h]}
        /\ UNCHANGED alias
        /\ last' = <<"none">>
     ELSE
        /\ UNCHANGED <<heap, alias, stale, mayst>>
        /\ anc' = [anc EXCEPT ![h] = {}]
        /\ bufs' = m[1] /\ view' = m[2]                          \* the target was materialised before the refusal
        /\ last' = <<"obs", out, out>>

\* ra.fill(v): every cell of the target (and of its aliases) becomes v; at level M the target is materialised and its buffer overwritten
Fill(h, v) == Assign(h, <<"all">>, <<"none">>, <<"scalar", v>>)

\* element-wise ufunc of handle h with `other` (<<"h", g>> | <<"py", pk, v>> | <<"none">>), operands in the given order
OperandOf(o) == IF Tag(o) = "h" THEN <<"ra", heap[o[2]]>> ELSE o
MOperandOf(o) == IF Tag(o) = "h" THEN <<"ra", MArr(o[2])>> ELSE o
UfuncStep(f, x, y) ==
  LET out == Ufunc(f, OperandOf(x), OperandOf(y))
      mout == Ufunc(f, MOperandOf(x), MOperandOf(y))
      hs == SelectSeq(<<x, y>>, LAMBDA o : Tag(o) = "h")
      m == MatAll(bufs, view, [i \in DOMAIN hs |-> hs[i][2]])
  IN IF Tag(out) = "ragged" THEN NewFresh(<<out[2], out[3]>>, <<mout[2], mout[3]>>, m, {hs[i][2] : i \in DOMAIN hs}) /\ last' = <<"new", Len(heap) + 1>>
     ELSE /\ UNCHANGED <<heap, alias, stale, anc, mayst>> /\ bufs' = m[1] /\ view' = m[2] /\ last' = <<"obs", out, mout>>

\* array functions producing a new array: name in "cumsum" "sort" "diff" "unique" "astype" (arg = n for diff), "concat" (arg = <<h2, axis>>)
FuncStep(name, h, arg) ==
  LET F(A(_)) == CASE name = "concat" -> Concat(<<A(h), A(arg[1])>>, arg[2])
                   [] name = "concat1" -> Concat(<<A(h)>>, 0)                    \* np.concatenate([a]): an equal, independent array
                   [] name = "diff" -> Scan("diff", A(h), arg)
                   [] name = "astype" -> <<"ragged", A(h)[1], A(h)[2]>>          \* astype(own dtype): an equal, independent array
                   [] name \in {"sum", "max", "min", "mean", "argmax", "argmin"} -> Reduce(<<"n", name>>, A(h), -1, 0)    \* an observation
                   [] name = "unique_obs" -> Scan("unique", A(h), 0)      \* looked at, not kept: its shape depends on the values
                   [] name = "nonzero_obs" -> Nonzero(A(h))               \* further observations (method spellings): coordinates,
                   [] name = "colsum_obs" -> Col("colsum", A(h), 0)       \* column totals,
                   [] name = "pad_obs" -> Pad(A(h), "right", Zero(A(h)[1]))   \* the padded matrix
                   [] OTHER -> Scan(name, A(h), 0)
      out == F(LAMBDA g : heap[g])
      mout == F(MArr)
      src == IF name = "concat" THEN {h, arg[1]} ELSE {h}
      m == MatAll(bufs, view, IF name = "concat" THEN <<h, arg[1]>> ELSE <<h>>)
  IN IF Tag(out) = "ragged" /\ name # "unique_obs" THEN NewFresh(<<out[2], out[3]>>, <<mout[2], mout[3]>>, m, src) /\ last' = <<"new", Len(heap) + 1>>
     ELSE /\ UNCHANGED <<heap, alias, stale, anc, mayst>> /\ bufs' = m[1] /\ view' = m[2] /\ last' = <<"obs", out, mout>>

\* read-only operations.  Printing, iterating, the flat view, reductions, every array function and ufunc executed for its
\* result only (the result is discarded): they materialise the array they look at.  "str" (prints a temporary selection),
\* "len" "shape" "size" "dtype" "lengths" "copy", and the selections "colvalues" (ra[mask, j]) and "rowcol" (ra[:, 0:1]) do not.
NonTouching == {"str", "len", "shape", "size", "dtype", "lengths", "copy", "colvalues", "rowcol"}
ReadMaterialises(kind) == kind \notin NonTouching
Read(h, kind) ==
  LET m == IF ReadMaterialises(kind) THEN MatIn(bufs, view, h) ELSE <<bufs, view>> IN
  /\ UNCHANGED <<heap, alias, stale, anc, mayst>>                 \* C10: looking changes nothing
  /\ bufs' = m[1] /\ view' = m[2]
  /\ last' = <<"none">>

\* one step described by a tuple (used by the bounded instances and by the trace validator)
Step(st) ==
  CASE st[1] = "new" -> New(st[2])
    [] st[1] = "select" -> Select(st[2], st[3], st[4])
    [] st[1] = "assign" -> Assign(st[2], st[3], st[4], st[5])
    [] st[1] = "fill" -> Fill(st[2], st[3])
    [] st[1] = "ufunc" -> UfuncStep(st[2], st[3], st[4])
    [] st[1] = "func" -> FuncStep(st[2], st[3], st[4])
    [] st[1] = "read" -> Read(st[2], st[3])
    [] OTHER -> FALSE
\* a step is well-formed when its handles exist (drivers and alphabets only produce such steps)
HandlesOf(st) ==
  CASE st[1] \in {"select", "assign", "read", "fill"} -> {st[2]}
    [] st[1] = "ufunc" -> {o[2] : o \in {x \in {st[3], st[4]} : Tag(x) = "h"}}
    [] st[1] = "func" -> IF st[2] = "concat" THEN {st[3], st[4][1]} ELSE {st[3]}
    [] OTHER -> {}

HeapInit == heap = <<>> /\ alias = <<>> /\ bufs = <<>> /\ view = <<>> /\ stale = {} /\ last = <<"none">> /\ anc = <<>> /\ mayst = {}

(***************************************************************************)
(* properties                                                              *)
(***************************************************************************)
\* level M denotes level A, except on handles hit by the named deviation
RefinesModuloStale == \A h \in Handles : h \notin stale => MRows(h) = heap[h][2]
\* only stale handles can be wrong (the deviation is the ONLY way the mechanism departs from the abstract content)
WrongOnlyIfStale == \A h \in Handles : MRows(h) # heap[h][2] => h \in stale
\* the conservative ghost covers the exact one, whatever the materialisation timing
StaleWithinMayStale == stale \subseteq mayst
\* "stale = {}" is C10/C06 at level M: TLC reports the 3-step counterexample Select; Assign(parent); observe(view)
NoStale == stale = {}
\* aliases always agree
AliasesAgree == \A g, h \in Handles : alias[g] = alias[h] => heap[g] = heap[h]
\* materialised handles own their buffer exclusively unless they are aliases
ContigOwnBuffer == \A g, h \in Handles : g # h /\ Contig(g) /\ Contig(h) /\ Buf(g) = Buf(h) => alias[g] = alias[h]
\* action properties (checked as [][...]_hvars)
ReadPureAt(h, k) == Read(h, k) => UNCHANGED heap
HeapOnlyGrows == [][Len(heap') >= Len(heap) /\ \A h \in Handles : heap'[h][1] = heap[h][1] /\ Lens(heap'[h][2]) = Lens(heap[h][2])]_hvars
=============================================================================
