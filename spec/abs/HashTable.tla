---------------------------- MODULE HashTable ----------------------------
(***************************************************************************)
(* HashTable / Counter / HashSet as a state machine (C11, C12).           *)
(*                                                                         *)
(* LEVEL A: a table is a dictionary over a FIXED set of integer keys,     *)
(* written <<ks, vs>>: the keys in construction order (unique) and the    *)
(* value of each.  Keys are opaque (only equality is used), so 2**62-size *)
(* keys may be given as limb tuples.  tabs : Seq(table).                  *)
(*                                                                         *)
(* LEVEL M (shaped like hashtable.py): per table                          *)
(*   [mod, buckets, vals] - buckets[h+1] = keys with k % mod = h in the   *)
(*   order the constructor stores them (stable sort by hash), vals either *)
(*   <<"scalar", c>> ("all keys share it": zeros_like, a fresh Counter)   *)
(*   or <<"array", rows aligned with buckets>>; the first write / first   *)
(*   counted hit converts scalar -> array (lazy materialisation), and     *)
(*   Counter.count has four state-dependent branches.                     *)
(* Refinement checked by TLC: the dictionary denoted by level M equals    *)
(* level A after every step (MC_Hash).  Level M needs integer keys.       *)
(***************************************************************************)
EXTENDS NpVal, TLC
VARIABLES tabs, mtabs, hlast
tvars == <<tabs, mtabs, hlast>>

HTag(x) == x[1]
UNSPEC_H == <<"unspec">>
REFUSED_H == <<"refused">>
\* ---- level A helpers on <<ks, vs>>
Has(t, k) == \E i \in DOMAIN t[1] : t[1][i] = k
Idx(t, k) == CHOOSE i \in DOMAIN t[1] : t[1][i] = k
Val(t, k) == t[2][Idx(t, k)]
Occ(batch, k) == Cardinality({i \in DOMAIN batch : batch[i] = k})
Unique(ks) == \A i, j \in DOMAIN ks : i # j => ks[i] # ks[j]
\* last write wins for repeated keys in one assignment
LastPos(ks, k) == CHOOSE i \in DOMAIN ks : ks[i] = k /\ \A j \in DOMAIN ks : ks[j] = k => j <= i
SetKeys(t, ks, vals) ==      \* vals: <<"scalar", v>> | <<"array", seq aligned with ks>>
  <<t[1], [i \in DOMAIN t[1] |-> IF \E j \in DOMAIN ks : ks[j] = t[1][i]
                                 THEN (IF vals[1] = "scalar" THEN vals[2] ELSE vals[2][LastPos(ks, t[1][i])])
                                 ELSE t[2][i]]>>
CountInto(t, batch) == <<t[1], [i \in DOMAIN t[1] |-> t[2][i] + Occ(batch, t[1][i])]>>
SameKeys(t1, t2) == {t1[1][i] : i \in DOMAIN t1[1]} = {t2[1][i] : i \in DOMAIN t2[1]}

\* ---- level M helpers (integer keys)
Hash(k, m) == k % m                      \* numpy: the result has the sign of the (positive) modulus
\* keys of bucket h in constructor order: argsort by hash is stable, so construction order is kept inside a bucket
Bucket(ks, m, h) == SelectSeq(ks, LAMBDA k : Hash(k, m) = h)
MkBuckets(ks, m) == [h \in 1..m |-> Bucket(ks, m, h - 1)]
Off(b, k) == CHOOSE j \in DOMAIN b : b[j] = k
MVal(mt, k) == IF mt.vals[1] = "scalar" THEN mt.vals[2]
               ELSE LET h == Hash(k, mt.mod) + 1 IN mt.vals[2][h][Off(mt.buckets[h], k)]
Filled(mt) == IF mt.vals[1] = "array" THEN mt.vals[2]
              ELSE [h \in DOMAIN mt.buckets |-> [j \in DOMAIN mt.buckets[h] |-> mt.vals[2]]]
\* membership as the code decides it: look only in the key's own bucket
MHas(mt, k) == LET b == mt.buckets[Hash(k, mt.mod) + 1] IN \E j \in DOMAIN b : b[j] = k
MkM(ks, vals, m) ==
  [mod |-> m, buckets |-> MkBuckets(ks, m),
   vals |-> IF vals[1] = "scalar" THEN vals
            ELSE <<"array", [h \in 1..m |-> LET b == Bucket(ks, m, h - 1) IN
                                             [j \in DOMAIN b |-> vals[2][CHOOSE i \in DOMAIN ks : ks[i] = b[j]]]]>>]
\* the dictionary level M denotes, in the key order of the level-A table t
AbsOf(mt, t) == <<t[1], [i \in DOMAIN t[1] |-> MVal(mt, t[1][i])]>>

(***************************************************************************)
(* steps.  Level M is maintained only when the table has integer keys and *)
(* a modulus (mtabs[t] = <<>> otherwise: recorded traces with limb keys). *)
(***************************************************************************)
HasM(t) == mtabs[t] # <<>>
NoChange == UNCHANGED <<tabs, mtabs>>
Obs(o) == hlast' = <<"obs", o>>

NewT(ks, vals, m, enc) ==          \* enc = "int" (level M is carried along) | "limb" (keys are opaque tuples)
  LET vs == IF vals[1] = "scalar" THEN [i \in DOMAIN ks |-> vals[2]] ELSE vals[2] IN
  IF ~Unique(ks) \/ ks = <<>> \/ (vals[1] = "array" /\ Len(vals[2]) # Len(ks)) THEN NoChange /\ Obs(UNSPEC_H)
  ELSE /\ tabs' = Append(tabs, <<ks, vs>>)
       /\ mtabs' = Append(mtabs, IF m > 0 /\ enc = "int" THEN MkM(ks, vals, m) ELSE <<>>)
       /\ hlast' = <<"new", Len(tabs) + 1>>

Get(t, k) == NoChange /\ Obs(IF Has(tabs[t], k) THEN <<"value", Val(tabs[t], k)>> ELSE UNSPEC_H)
GetVec(t, ks) ==
  NoChange /\ Obs(IF ks = <<>> THEN UNSPEC_H
              ELSE IF \E i \in DOMAIN ks : ~Has(tabs[t], ks[i]) THEN REFUSED_H
              ELSE <<"values", [i \in DOMAIN ks |-> Val(tabs[t], ks[i])]>>)
Contains(t, ks) == NoChange /\ Obs(<<"bools", [i \in DOMAIN ks |-> B(Has(tabs[t], ks[i]))]>>)
ContainsOne(t, k) == NoChange /\ Obs(<<"bool", B(Has(tabs[t], k))>>)
\* a query vector far longer than TLC could hold, in compressed form: n copies of v before / after an ordinary tail
ContainsRep(t, v, n, tail) == NoChange /\ Obs(<<"boolsrep", B(Has(tabs[t], v)), n, [i \in DOMAIN tail |-> B(Has(tabs[t], tail[i]))]>>)
Items(t) == NoChange /\ Obs(<<"dict", tabs[t][1], tabs[t][2]>>)

SetT(t, ks, vals) ==
  IF ks = <<>> \/ (\E i \in DOMAIN ks : ~Has(tabs[t], ks[i]))
     \/ (vals[1] = "array" /\ (Len(vals[2]) # Len(ks) \/ \E i, j \in DOMAIN ks : ks[i] = ks[j] /\ vals[2][i] # vals[2][j]))
  THEN NoChange /\ Obs(UNSPEC_H)
  ELSE /\ tabs' = [tabs EXCEPT ![t] = SetKeys(tabs[t], ks, vals)]
       /\ mtabs' = IF HasM(t) THEN
                     LET mt == mtabs[t]  f == Filled(mt) IN                    \* _fill_values() then scatter
                     [mtabs EXCEPT ![t] = [mod |-> mt.mod, buckets |-> mt.buckets, vals |-> <<"array",
                         [h \in DOMAIN mt.buckets |-> [j \in DOMAIN mt.buckets[h] |->
                             IF \E i \in DOMAIN ks : ks[i] = mt.buckets[h][j]
                             THEN (IF vals[1] = "scalar" THEN vals[2] ELSE vals[2][LastPos(ks, mt.buckets[h][j])])
                             ELSE f[h][j]]]>>]]
                   ELSE mtabs
       /\ hlast' = <<"none">>
Fill(t, v) ==
  /\ tabs' = [tabs EXCEPT ![t] = <<@[1], [i \in DOMAIN @[2] |-> v]>>]
  /\ mtabs' = IF HasM(t) THEN LET mt == mtabs[t] IN
                 [mtabs EXCEPT ![t] = [mod |-> mt.mod, buckets |-> mt.buckets, vals |->
                    IF mt.vals[1] = "scalar" THEN <<"scalar", v>>
                    ELSE <<"array", [h \in DOMAIN mt.buckets |-> [j \in DOMAIN mt.buckets[h] |-> v]]>>]]
              ELSE mtabs
  /\ hlast' = <<"none">>
Like(t, c) ==      \* np.zeros_like / np.ones_like: same keys, one shared value
  /\ tabs' = Append(tabs, <<tabs[t][1], [i \in DOMAIN tabs[t][1] |-> c]>>)
  /\ mtabs' = Append(mtabs, IF HasM(t) THEN [mod |-> mtabs[t].mod, buckets |-> mtabs[t].buckets, vals |-> <<"scalar", c>>] ELSE <<>>)
  /\ hlast' = <<"new", Len(tabs) + 1>>
AddT(t1, t2) ==
  IF tabs[t1][1] # tabs[t2][1] THEN NoChange /\ Obs(IF SameKeys(tabs[t1], tabs[t2]) THEN UNSPEC_H ELSE UNSPEC_H)
  ELSE /\ tabs' = Append(tabs, <<tabs[t1][1], [i \in DOMAIN tabs[t1][1] |-> tabs[t1][2][i] + tabs[t2][2][i]]>>)
       /\ mtabs' = Append(mtabs, IF HasM(t1) /\ HasM(t2) /\ mtabs[t1].mod = mtabs[t2].mod THEN
                       LET m1 == mtabs[t1]  m2 == mtabs[t2] IN
                       [mod |-> m1.mod, buckets |-> m1.buckets, vals |->
                           IF m1.vals[1] = "scalar" /\ m2.vals[1] = "scalar" THEN <<"scalar", m1.vals[2] + m2.vals[2]>>
                           ELSE <<"array", [h \in DOMAIN m1.buckets |-> [j \in DOMAIN m1.buckets[h] |-> Filled(m1)[h][j] + Filled(m2)[h][j]]]>>]
                     ELSE <<>>)
       /\ hlast' = <<"new", Len(tabs) + 1>>
EqT(t1, t2) ==
  NoChange /\ Obs(IF tabs[t1][1] # tabs[t2][1] THEN UNSPEC_H ELSE <<"bool", B(tabs[t1][2] = tabs[t2][2])>>)

\* Counter.count(batch): level A = multiset count; level M = the four branches of the code
\* counting, for any way of saying how often each key occurs among the samples (F): a plain batch, or a batch given in
\* compressed form (`countrep`: n copies of one value before / after an ordinary tail - batches far larger than TLC could hold)
CountGen(t, F(_)) ==
  /\ tabs' = [tabs EXCEPT ![t] = <<tabs[t][1], [i \in DOMAIN tabs[t][1] |-> tabs[t][2][i] + F(tabs[t][1][i])]>>]
  /\ mtabs' = IF ~HasM(t) THEN mtabs
     ELSE LET mt == mtabs[t]
              \* samples whose bucket is empty are dropped first, then the hits among the rest are counted per bucket slot
              binc == [h \in DOMAIN mt.buckets |-> [j \in DOMAIN mt.buckets[h] |-> F(mt.buckets[h][j])]]
              nohit == \A h \in DOMAIN binc : \A j \in DOMAIN binc[h] : binc[h][j] = 0
          IN [mtabs EXCEPT ![t] = [mod |-> mt.mod, buckets |-> mt.buckets, vals |->
                IF nohit THEN mt.vals                                                          \* `if not rows.size: return`
                ELSE IF mt.vals[1] = "scalar" /\ mt.vals[2] = 0 THEN <<"array", binc>>           \* fresh counter: the histogram itself
                ELSE IF mt.vals[1] = "scalar" THEN <<"array", [h \in DOMAIN binc |-> [j \in DOMAIN binc[h] |-> mt.vals[2] + binc[h][j]]]>>
                ELSE <<"array", [h \in DOMAIN binc |-> [j \in DOMAIN binc[h] |-> mt.vals[2][h][j] + binc[h][j]]]>>]]
  /\ hlast' = <<"none">>
CountT(t, batch) == CountGen(t, LAMBDA k : Occ(batch, k))
CountRepT(t, v, n, tail) == CountGen(t, LAMBDA k : Occ(tail, k) + (IF k = v THEN n ELSE 0))

HStep(st) ==
  CASE st[1] = "new" -> NewT(st[2], st[3], st[4], st[6])
    [] st[1] = "get" -> Get(st[2], st[3])
    [] st[1] = "getvec" -> GetVec(st[2], st[3])
    [] st[1] = "set" -> SetT(st[2], st[3], st[4])
    [] st[1] = "fill" -> Fill(st[2], st[3])
    [] st[1] = "contains" -> Contains(st[2], st[3])
    [] st[1] = "containsone" -> ContainsOne(st[2], st[3])
    [] st[1] = "containsrep" -> ContainsRep(st[2], st[3], st[4], st[5])
    [] st[1] = "zeros_like" -> Like(st[2], 0)
    [] st[1] = "ones_like" -> Like(st[2], 1)
    [] st[1] = "add" -> AddT(st[2], st[3])
    [] st[1] = "eq" -> EqT(st[2], st[3])
    [] st[1] \in {"items", "to_dict"} -> Items(st[2])
    [] st[1] = "count" -> CountT(st[2], st[3])
    [] st[1] = "countrep" -> CountRepT(st[2], st[3], st[4], st[5])          \* st[6]: where the copies stand ("head" | "tail")
    [] OTHER -> FALSE
\* (a "new" step may carry a 7th element naming an earlier table whose caller-side arrays the harness re-uses: level A ignores it,
\*  because a table built from the same arrays is simply another table with the constructor's values)
HHandles(st) == IF st[1] = "new" THEN {} ELSE IF st[1] \in {"add", "eq"} THEN {st[2], st[3]} ELSE {st[2]}
HInit == tabs = <<>> /\ mtabs = <<>> /\ hlast = <<"none">>

(***************************************************************************)
(* properties                                                              *)
(***************************************************************************)
\* level M denotes level A (wherever level M is maintained)
HashRefines == \A t \in DOMAIN tabs : HasM(t) => AbsOf(mtabs[t], tabs[t]) = tabs[t]
\* membership through the key's own bucket is exact
MembershipExact(U) == \A t \in DOMAIN tabs : HasM(t) => \A k \in U : MHas(mtabs[t], k) <=> Has(tabs[t], k)
\* the key set never changes
KeysFixed == [][\A t \in DOMAIN tabs : tabs'[t][1] = tabs[t][1]]_tvars
\* lemmas on the abstract counter: totals do not depend on order or on how samples are split into calls
SplitLemma(t, BS) == \A b1 \in BS, b2 \in BS : CountInto(CountInto(t, b1), b2) = CountInto(t, b1 \o b2)
OrderLemma(t, BS) == \A b1 \in BS, b2 \in BS : CountInto(t, b1 \o b2) = CountInto(t, b2 \o b1)
=============================================================================
