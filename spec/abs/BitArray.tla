---------------------------- MODULE BitArray ----------------------------
(***************************************************************************)
(* BitArray (C13).  LEVEL A: a packed array denotes the sequence of b-bit *)
(* DIGITS it was packed from; digits are opaque values (an integer < 2^b, *)
(* or for b = 32 a pair <<hi16, lo16>> so that nothing leaves TLC's       *)
(* integers), only moved and compared.                                    *)
(*   unpack(pack(a)) = a          get(i) = a[i]                            *)
(*   getlist(l) = pack(a[l])      window(w)[i] = digits a[i .. i+w-1],     *)
(* least significant first, all higher digits of the 64-bit result zero.  *)
(* LEVEL M (shaped like bitarray.py): registers = vectors of per = 64/b   *)
(* digit slots; packing by strided placement (slot k of register j holds  *)
(* a[j*per + k]); unpack = concatenate registers, truncate to the logical *)
(* length; get = (i div per, i mod per); a window starting in slot k of   *)
(* register j takes slots k.. of this register and the first slots of the *)
(* next one.  MechEqualsAbs is checked by TLC (MC_Bit).                    *)
(***************************************************************************)
EXTENDS PySeq, TLC
BTag(x) == x[1]
B_UNSPEC == <<"unspec">>
Per(b) == 64 \div b
ZeroDigit(b) == IF b = 32 THEN <<0, 0>> ELSE 0
\* ---- level A
Window(b, a, w, i) == [k \in 1..Per(b) |-> IF k <= w THEN a[i + k - 1] ELSE ZeroDigit(b)]     \* window starting at position i (1-based), as per digits
BitExpect(c) ==
  LET op == c[1]  b == c[2]  a == c[3]  n == Len(c[3]) IN
  IF b \notin {1, 2, 4, 8, 16, 32} THEN B_UNSPEC
  ELSE CASE op = "bit_roundtrip" -> <<"digits", a>>
         [] op = "bit_len" -> <<"int", n>>
         [] op = "bit_get" -> IF c[4] \in 0..(n - 1) THEN <<"digit", a[c[4] + 1]>> ELSE B_UNSPEC
         [] op = "bit_getlist" -> IF \A i \in DOMAIN c[4] : c[4][i] \in 0..(n - 1) THEN <<"digits", Take(a, c[4])>> ELSE B_UNSPEC
         [] op = "bit_window" -> IF c[4] \in 1..Per(b) /\ n >= c[4] THEN <<"windows", [i \in 1..(n - c[4] + 1) |-> Window(b, a, c[4], i)]>> ELSE B_UNSPEC
         [] OTHER -> B_UNSPEC
\* ---- level M
NRegs(b, n) == (n + Per(b) - 1) \div Per(b)
Pack(b, a) == [j \in 1..NRegs(b, Len(a)) |-> [k \in 1..Per(b) |-> LET p == (j - 1) * Per(b) + k IN IF p <= Len(a) THEN a[p] ELSE ZeroDigit(b)]]
MUnpack(b, regs, n) == SubSeq(FlatSeq(regs), 1, n)
MGet(b, regs, i) == regs[(i \div Per(b)) + 1][(i % Per(b)) + 1]
\* res[j][k] = (reg j >> k slots) | (reg j+1 << (per - k) slots), masked to w digits; flattened, truncated to n - w + 1 windows
MWindowAt(b, regs, w, j, k) ==          \* window starting in slot k (1-based) of register j
  [d \in 1..Per(b) |-> IF d > w THEN ZeroDigit(b)
                       ELSE LET s == k + d - 1 IN
                            IF s <= Per(b) THEN regs[j][s]
                            ELSE IF j < Len(regs) THEN regs[j + 1][s - Per(b)] ELSE ZeroDigit(b)]
MWindows(b, regs, w, n) == [i \in 1..(n - w + 1) |-> MWindowAt(b, regs, w, ((i - 1) \div Per(b)) + 1, ((i - 1) % Per(b)) + 1)]
MechEqualsAbsAt(b, a) ==
  LET regs == Pack(b, a)  n == Len(a) IN
  /\ MUnpack(b, regs, n) = a
  /\ \A i \in 0..(n - 1) : MGet(b, regs, i) = a[i + 1]
  /\ \A w \in 1..Per(b) : n >= w => MWindows(b, regs, w, n) = [i \in 1..(n - w + 1) |-> Window(b, a, w, i)]
=============================================================================
