---------------------------- MODULE DataClass ----------------------------
(***************************************************************************)
(* npdataclass / VarLenArray (C18), level A only (the mechanism is a      *)
(* field-wise loop).  A table is <<names, cols>>: field names and, per    *)
(* field, a column <<"1d", seq>> or <<"2d", rows>> (entry i of a 2-D      *)
(* column is its i-th row).  All columns of a table have the same length. *)
(***************************************************************************)
EXTENDS PySeq, TLC
DTag(x) == x[1]
D_UNSPEC == <<"unspec">>
D_REFUSED == <<"refused">>
ColLen(col) == Len(col[2])
Entries(col) == col[2]                          \* the sequence of entries (values or rows)
TabLen(t) == ColLen(t[2][1])
WellFormed(t) == t[1] # <<>> /\ Len(t[1]) = Len(t[2]) /\ \A f \in DOMAIN t[2] : ColLen(t[2][f]) = ColLen(t[2][1])
SelCol(col, ix) == <<col[1], Take(col[2], ix)>>
PosOf(sel, n) ==
  CASE DTag(sel) = "slice" -> IF sel[4] = 0 THEN <<"unspec", <<>>>> ELSE <<"ok", SliceIdx(n, sel[2], sel[3], sel[4])>>
    [] DTag(sel) = "list" -> LET q == [k \in DOMAIN sel[2] |-> NormInt(n, sel[2][k])] IN IF \E k \in DOMAIN q : q[k] < 0 THEN <<"unspec", <<>>>> ELSE <<"ok", q>>
    [] DTag(sel) = "mask" -> IF Len(sel[2]) # n THEN <<"unspec", <<>>>> ELSE <<"ok", Ones(sel[2])>>
    [] OTHER -> <<"unspec", <<>>>>
DCExpect(c) ==
  LET op == c[1] IN
  CASE op = "dc_new" -> IF c[2][1] = <<>> THEN D_UNSPEC ELSE IF WellFormed(c[2]) THEN <<"table", c[2][1], c[2][2]>> ELSE D_REFUSED
    [] op = "dc_len" -> IF WellFormed(c[2]) THEN <<"int", TabLen(c[2])>> ELSE D_UNSPEC
    [] op = "dc_getitem" ->
         LET t == c[2]  sel == c[3] IN
         IF ~WellFormed(t) THEN D_UNSPEC
         ELSE IF DTag(sel) = "int" THEN
              (LET p == NormInt(TabLen(t), sel[2]) IN IF p < 0 THEN D_UNSPEC ELSE <<"entry", t[1], [f \in DOMAIN t[2] |-> Entries(t[2][f])[p + 1]]>>)
         ELSE LET P == PosOf(sel, TabLen(t)) IN
              IF P[1] # "ok" THEN D_UNSPEC ELSE <<"table", t[1], [f \in DOMAIN t[2] |-> SelCol(t[2][f], P[2])]>>
    [] op = "dc_iter" -> IF ~WellFormed(c[2]) THEN D_UNSPEC
                         ELSE <<"entries", c[2][1], [i \in 1..TabLen(c[2]) |-> [f \in DOMAIN c[2][2] |-> Entries(c[2][2][f])[i]]]>>
    [] op = "dc_concat" ->
         LET ts == c[2] IN
         IF ts = <<>> \/ \E k \in DOMAIN ts : ~WellFormed(ts[k]) \/ ts[k][1] # ts[1][1] \/ \E f \in DOMAIN ts[k][2] : ts[k][2][f][1] # ts[1][2][f][1] THEN D_UNSPEC
         ELSE <<"table", ts[1][1], [f \in DOMAIN ts[1][2] |-> <<ts[1][2][f][1], FlatSeq([k \in DOMAIN ts |-> Entries(ts[k][2][f])])>>]>>
    [] op = "dc_eq" -> IF ~WellFormed(c[2]) \/ ~WellFormed(c[3]) \/ c[2][1] # c[3][1] THEN D_UNSPEC ELSE <<"bool", B(c[2][2] = c[3][2])>>
    [] op = "dc_astype" ->       \* projection onto a subset of the field names (given in the target class's own order)
         LET t == c[2]  want == c[3] IN
         IF ~WellFormed(t) \/ want = <<>> \/ \E i \in DOMAIN want : ~(\E f \in DOMAIN t[1] : t[1][f] = want[i]) THEN D_UNSPEC
         ELSE <<"table", want, [i \in DOMAIN want |-> t[2][CHOOSE f \in DOMAIN t[1] : t[1][f] = want[i]]]>>
    [] op = "vl_concat" ->       \* VarLenArrays (2-D, >= 1 row each): widths padded to the maximum, right-aligned, zeros on the left
         LET ms == c[2]  W == MaxSeq([k \in DOMAIN ms |-> Len(ms[k][1])]) IN
         IF ms = <<>> \/ \E k \in DOMAIN ms : ms[k] = <<>> \/ \E r \in DOMAIN ms[k] : Len(ms[k][r]) # Len(ms[k][1]) THEN D_UNSPEC
         ELSE <<"matrix2", FlatSeq([k \in DOMAIN ms |-> [r \in DOMAIN ms[k] |-> [j \in 1..(W - Len(ms[k][r])) |-> 0] \o ms[k][r]]])>>
    [] OTHER -> D_UNSPEC
=============================================================================
