---------------------------- MODULE NpVal ----------------------------
(***************************************************************************)
(* numpy 2.x dtype lattice (NEP 50) and value algebra, as far as the      *)
(* properties need it.  TLC has 32-bit integers and no floats, so:        *)
(*   bool / integer values are TLA+ integers (bool = 0/1);                *)
(*   8- and 16-bit integers wrap exactly; 32/64-bit are used in a         *)
(*   no-overflow regime (|v| < 2^15, short rows) enforced by the drivers; *)
(*   floats are reduced rationals <<num, den>>, den > 0, with             *)
(*   NaN = <<0,0>>, +inf = <<1,0>>, -inf = <<-1,0>>; drivers feed small   *)
(*   dyadic rationals on which IEEE arithmetic is exact.                  *)
(* Calibrated against numpy itself by `./check selftest` (Calib.tla).     *)
(***************************************************************************)
EXTENDS Integers, Sequences, FiniteSets, Bitwise, PySeq

DTypes == {"b1","i1","i2","i4","i8","u1","u2","u4","u8","f2","f4","f8"}
Kind(dt) == IF dt = "b1" THEN "b" ELSE IF dt \in {"i1","i2","i4","i8"} THEN "i"
            ELSE IF dt \in {"u1","u2","u4","u8"} THEN "u" ELSE "f"
Bits(dt) == CASE dt \in {"b1","i1","u1"} -> 8 [] dt \in {"i2","u2","f2"} -> 16
              [] dt \in {"i4","u4","f4"} -> 32 [] OTHER -> 64
SInt(bits) == CASE bits = 8 -> "i1" [] bits = 16 -> "i2" [] bits = 32 -> "i4" [] OTHER -> "i8"
UInt(bits) == CASE bits = 8 -> "u1" [] bits = 16 -> "u2" [] bits = 32 -> "u4" [] OTHER -> "u8"
Flt(bits) == CASE bits = 16 -> "f2" [] bits = 32 -> "f4" [] OTHER -> "f8"
IsInt(dt) == Kind(dt) \in {"i", "u"}
IsFlt(dt) == Kind(dt) = "f"

\* np.result_type(dt1, dt2) for two array dtypes
ResultType(a, b) ==
  LET ka == Kind(a)  kb == Kind(b)  ba == Bits(a)  bb == Bits(b) IN
  IF a = b THEN a
  ELSE IF ka = "b" THEN b ELSE IF kb = "b" THEN a
  ELSE IF ka = kb THEN (IF ba >= bb THEN a ELSE b)
  ELSE IF ka = "f" \/ kb = "f" THEN
       LET f == IF ka = "f" THEN a ELSE b
           i == IF ka = "f" THEN b ELSE a
           need == IF Bits(i) <= 8 THEN 16 ELSE IF Bits(i) = 16 THEN 32 ELSE 64   \* float wide enough for the int
       IN Flt(Mx(Bits(f), need))
  ELSE \* signed vs unsigned
       LET u == IF ka = "u" THEN a ELSE b
           s == IF ka = "u" THEN b ELSE a
       IN IF Bits(s) > Bits(u) THEN s ELSE IF Bits(u) = 64 THEN "f8" ELSE SInt(2 * Bits(u))
\* NEP 50: a Python scalar of kind "pybool" | "pyint" | "pyfloat" combined with an array dtype
ResultTypeWeak(dt, pk) ==
  CASE pk = "pybool" -> dt
    [] pk = "pyint" -> IF Kind(dt) = "b" THEN "i8" ELSE dt
    [] pk = "pyfloat" -> IF Kind(dt) = "f" THEN dt ELSE "f8"
    [] OTHER -> dt
\* the dtype a Python scalar has on its own (np.asarray(scalar).dtype)
PyDType(pk) == CASE pk = "pybool" -> "b1" [] pk = "pyint" -> "i8" [] OTHER -> "f8"

\* ---- integer wrap-around
Wrap(dt, x) ==
  IF Kind(dt) = "b" THEN (IF x = 0 THEN 0 ELSE 1)
  ELSE IF Bits(dt) > 16 THEN x                          \* no-overflow regime
  ELSE LET m == 2 ^ Bits(dt)  r == x % m IN
       IF Kind(dt) = "u" THEN r ELSE (IF r >= m \div 2 THEN r - m ELSE r)
\* is the mathematical integer x representable in dt (only meaningful for <= 16 bit and bool)
Fits(dt, x) == Wrap(dt, x) = x

\* ---- rationals
RECURSIVE Gcd(_, _)
Gcd(a, b) == IF b = 0 THEN a ELSE Gcd(b, a % b)
Q(n, d) == IF d = 0 THEN <<Sign(n), 0>>
           ELSE LET g == Gcd(Abs(n), Abs(d))  s == IF d < 0 THEN -1 ELSE 1 IN <<(s * n) \div g, (s * d) \div g>>
NaN == <<0, 0>>
IsNaN(x) == x = <<0, 0>>
IsInf(x) == x[2] = 0 /\ x[1] # 0
QZero == <<0, 1>>
QOne == <<1, 1>>
QAdd(x, y) == IF IsNaN(x) \/ IsNaN(y) THEN NaN
              ELSE IF IsInf(x) /\ IsInf(y) THEN (IF x = y THEN x ELSE NaN)
              ELSE IF IsInf(x) THEN x ELSE IF IsInf(y) THEN y
              ELSE Q(x[1] * y[2] + y[1] * x[2], x[2] * y[2])
QNeg(x) == <<-x[1], x[2]>>
QAbs(x) == <<Abs(x[1]), x[2]>>
QMul(x, y) == IF IsNaN(x) \/ IsNaN(y) THEN NaN
              ELSE IF (IsInf(x) /\ y[1] = 0) \/ (IsInf(y) /\ x[1] = 0) THEN NaN
              ELSE IF IsInf(x) \/ IsInf(y) THEN <<Sign(x[1]) * Sign(y[1]), 0>>
              ELSE Q(x[1] * y[1], x[2] * y[2])
QDivInt(x, n) == IF IsNaN(x) THEN NaN ELSE IF n = 0 THEN (IF x[1] = 0 THEN NaN ELSE <<Sign(x[1]), 0>>)
                 ELSE IF IsInf(x) THEN x ELSE Q(x[1], x[2] * n)
QLess(x, y) == IF IsNaN(x) \/ IsNaN(y) THEN FALSE
               ELSE IF IsInf(x) \/ IsInf(y) THEN
                      (IF x = y THEN FALSE ELSE IF IsInf(x) THEN x[1] < 0 ELSE y[1] > 0)
               ELSE x[1] * y[2] < y[1] * x[2]
QEq(x, y) == ~IsNaN(x) /\ ~IsNaN(y) /\ x = y

\* generic helpers dispatching on the dtype kind
Zero(dt) == IF IsFlt(dt) THEN QZero ELSE 0
One(dt) == IF IsFlt(dt) THEN QOne ELSE 1
Less(dt, x, y) == IF IsFlt(dt) THEN QLess(x, y) ELSE x < y
Eq(dt, x, y) == IF IsFlt(dt) THEN QEq(x, y) ELSE x = y
\* numpy sort order: NaN last
SortLess(dt, x, y) == IF IsFlt(dt) THEN (IF IsNaN(x) THEN FALSE ELSE IF IsNaN(y) THEN TRUE ELSE QLess(x, y)) ELSE x < y
\* identity of values for unique / run detection (NaN is not equal to NaN)
Truth(dt, x) == IF IsFlt(dt) THEN (IsNaN(x) \/ x[1] # 0) ELSE x # 0

\* exactly representable in float16 (normal range): an 11-bit significand and a magnitude of at most 65504
RECURSIVE OddPart(_)
OddPart(n) == IF n = 0 THEN 0 ELSE IF n % 2 = 0 THEN OddPart(n \div 2) ELSE n
Pow2s == {1, 2, 4, 8, 16, 32, 64, 128, 256, 512, 1024, 2048, 4096, 8192, 16384}
RepF2(q) == q[2] = 0 \/ q[1] = 0 \/ (q[2] \in Pow2s /\ OddPart(Abs(q[1])) < 2048 /\ Abs(q[1]) <= 65504 * q[2])

\* ---- 64-bit integers as four 16-bit limbs of the two's-complement pattern (most significant first): addition modulo 2^64,
\* which is what numpy's int64 / uint64 sums compute
WideZero == <<0, 0, 0, 0>>
WideAdd(x, y) ==
  LET s4 == x[4] + y[4]
      s3 == x[3] + y[3] + s4 \div 65536
      s2 == x[2] + y[2] + s3 \div 65536
      s1 == x[1] + y[1] + s2 \div 65536
  IN <<s1 % 65536, s2 % 65536, s3 % 65536, s4 % 65536>>
RECURSIVE WideSum(_)
WideSum(q) == IF q = <<>> THEN WideZero ELSE WideAdd(WideSum(Tail(q)), Head(q))
\* the same sum with one more limb in front (sign extension for signed dtypes): tells whether the true total fits in 64 bits.
\* Totals that do not fit are outside the claim (numpy wraps; "the sum" of the property has no 64-bit value then).
WideExt(x, signed) == <<IF signed /\ x[1] >= 32768 THEN 65535 ELSE 0>> \o x
WideAdd5(x, y) ==
  LET s5 == x[5] + y[5]
      s4 == x[4] + y[4] + s5 \div 65536
      s3 == x[3] + y[3] + s4 \div 65536
      s2 == x[2] + y[2] + s3 \div 65536
      s1 == x[1] + y[1] + s2 \div 65536
  IN <<s1 % 65536, s2 % 65536, s3 % 65536, s4 % 65536, s5 % 65536>>
RECURSIVE WideSum5(_, _)
WideSum5(q, signed) == IF q = <<>> THEN <<0, 0, 0, 0, 0>> ELSE WideAdd5(WideSum5(Tail(q), signed), WideExt(Head(q), signed))
WideFits(q, dt) == LET s == WideSum5(q, Kind(dt) = "i") IN
                   IF Kind(dt) = "i" THEN s[1] = (IF s[2] >= 32768 THEN 65535 ELSE 0) ELSE s[1] = 0

\* n times a 64-bit value given as limbs, modulo 2^64, by doubling (n up to millions costs ~22 additions)
RECURSIVE WideMulN(_, _)
WideMulN(x, n) == IF n = 0 THEN WideZero
                  ELSE LET h == WideMulN(x, n \div 2)  d == WideAdd(h, h) IN IF n % 2 = 1 THEN WideAdd(d, x) ELSE d
\* order of 64-bit values given as limbs: lexicographic on the limbs, the top bit flipped for the signed reading
WideKey(x, signed) == IF signed THEN <<(x[1] + 32768) % 65536, x[2], x[3], x[4]>> ELSE x
LexLess4(a, b) == \/ a[1] < b[1]
                  \/ (a[1] = b[1] /\ (a[2] < b[2] \/ (a[2] = b[2] /\ (a[3] < b[3] \/ (a[3] = b[3] /\ a[4] < b[4])))))
WideLess(dt, x, y) == LexLess4(WideKey(x, dt = "i8"), WideKey(y, dt = "i8"))
RECURSIVE WideInsert(_, _, _)
WideInsert(dt, q, v) == IF q = <<>> THEN <<v>>
                        ELSE IF WideLess(dt, v, q[Len(q)]) THEN Append(WideInsert(dt, SubSeq(q, 1, Len(q) - 1), v), q[Len(q)]) ELSE Append(q, v)
RECURSIVE WideSort(_, _)
WideSort(dt, q) == IF q = <<>> THEN <<>> ELSE WideInsert(dt, WideSort(dt, SubSeq(q, 1, Len(q) - 1)), q[Len(q)])
WideUnique(dt, q) == LET s == WideSort(dt, q) IN SelectSeq([i \in DOMAIN s |-> <<s[i], i>>], LAMBDA p : p[2] = 1 \/ s[p[2] - 1] # p[1])

\* ---- casting a value of dtype a to dtype b (ndarray.astype); claimed only where CastOK
Cast(a, b, v) ==
  IF IsFlt(a) THEN
       (IF IsFlt(b) THEN v
        ELSE IF Kind(b) = "b" THEN (IF IsNaN(v) \/ v[1] # 0 THEN 1 ELSE 0)
        ELSE Wrap(b, IF v[1] >= 0 THEN v[1] \div v[2] ELSE -((-v[1]) \div v[2])))    \* truncation toward zero
  ELSE (IF IsFlt(b) THEN <<v, 1>> ELSE Wrap(b, v))
CastOK(a, b, v) ==
  /\ ~(IsFlt(a) /\ ~IsFlt(b) /\ Kind(b) # "b" /\ v[2] = 0)           \* NaN / inf to an integer dtype: undefined
  /\ ~(IsFlt(a) /\ Kind(b) = "u" /\ v[1] < 0)                         \* negative float to unsigned: undefined in C
  /\ ~(~IsFlt(a) /\ Kind(b) = "u" /\ Bits(b) > 16 /\ v < 0)            \* wraps to a value outside the modelled integer range
  /\ ~(~IsFlt(a) /\ b = "f2" /\ Abs(v) > 2048)                        \* not exactly representable in float16

\* ---- element-wise ufuncs.  F2(f, dt, x, y): both operands already cast to the loop dtype dt
Cmp == {"less", "less_equal", "greater", "greater_equal", "equal", "not_equal"}
Logical == {"logical_and", "logical_or", "logical_xor"}
BitOps == {"bitwise_and", "bitwise_or", "bitwise_xor"}
Arith == {"add", "subtract", "multiply", "maximum", "minimum"}
Binary == Cmp \cup Logical \cup BitOps \cup Arith
Unary == {"negative", "absolute", "invert", "logical_not"}
OutType(f, dt) == IF f \in Cmp \cup Logical \cup {"logical_not"} THEN "b1" ELSE dt
\* numpy has no loop for these combinations: the call raises TypeError
NoLoop(f, dt) == \/ (f \in BitOps \cup {"invert"} /\ IsFlt(dt))
                 \/ (f \in {"subtract", "negative"} /\ dt = "b1")
\* bit operations on possibly negative small ints go through the 16-bit two's-complement pattern
Pat16(x) == x % 65536
BitOp2(op, dt, x, y) == LET a == Pat16(x)  b == Pat16(y)
                            r == CASE op = "bitwise_and" -> a & b [] op = "bitwise_or" -> a | b [] OTHER -> a ^^ b
                        IN IF Kind(dt) = "u" THEN r ELSE (IF r >= 32768 THEN r - 65536 ELSE r)
\* ... which is exact only for operands in the 16-bit signed range when the loop dtype is wider than 16 bits
BitInRegime(f, dt, x, y) == (f \in BitOps /\ Bits(dt) > 16) => (x \in -32768..32767 /\ y \in -32768..32767)
\* the product of two 16-bit unsigned values modulo 2^16 without leaving TLC's 32-bit integers
MulMod16(x, y) == (x * (y % 256) + ((x * (y \div 256)) % 65536) * 256) % 65536
F2(f, dt, x, y) ==
  LET fl == IsFlt(dt)
      lt == IF fl THEN QLess(x, y) ELSE x < y
      eq == IF fl THEN QEq(x, y) ELSE x = y
      nan == fl /\ (IsNaN(x) \/ IsNaN(y))
  IN CASE f = "add" -> IF fl THEN QAdd(x, y) ELSE IF dt = "b1" THEN B(x + y > 0) ELSE Wrap(dt, x + y)
       [] f = "subtract" -> IF fl THEN QAdd(x, QNeg(y)) ELSE Wrap(dt, x - y)
       [] f = "multiply" -> IF fl THEN QMul(x, y) ELSE IF dt = "b1" THEN B(x * y > 0)
                            ELSE IF dt = "u2" THEN MulMod16(x, y) ELSE Wrap(dt, x * y)
       [] f = "maximum" -> IF nan THEN NaN ELSE IF lt THEN y ELSE x
       [] f = "minimum" -> IF nan THEN NaN ELSE IF lt THEN x ELSE y
       [] f = "less" -> B(lt)  [] f = "greater" -> B(~nan /\ ~lt /\ ~eq)
       [] f = "less_equal" -> B(lt \/ eq)  [] f = "greater_equal" -> B(~nan /\ ~lt)
       [] f = "equal" -> B(eq)  [] f = "not_equal" -> B(~eq)
       [] f = "logical_and" -> B(Truth(dt, x) /\ Truth(dt, y))
       [] f = "logical_or" -> B(Truth(dt, x) \/ Truth(dt, y))
       [] f = "logical_xor" -> B(Truth(dt, x) # Truth(dt, y))
       [] f \in BitOps -> IF dt = "b1" THEN (CASE f = "bitwise_and" -> B(x = 1 /\ y = 1)
                                               [] f = "bitwise_or" -> B(x = 1 \/ y = 1) [] OTHER -> B(x # y))
                          ELSE Wrap(dt, BitOp2(f, dt, x, y))
F1(f, dt, x) ==
  CASE f = "negative" -> IF IsFlt(dt) THEN QNeg(x) ELSE Wrap(dt, -x)
    [] f = "absolute" -> IF IsFlt(dt) THEN QAbs(x) ELSE Wrap(dt, Abs(x))
    [] f = "invert" -> IF dt = "b1" THEN 1 - x ELSE IF Kind(dt) = "u" THEN 2 ^ Bits(dt) - 1 - x ELSE -x - 1
    [] f = "logical_not" -> B(~Truth(dt, x))
\* invert on 32/64-bit unsigned values leaves the no-overflow regime
F1InRegime(f, dt) == ~(f = "invert" /\ Kind(dt) = "u" /\ Bits(dt) > 16)

\* ---- reductions
\* dtype of ufunc.reduce(array of dt): add / multiply promote small integers (and bool) to 64 bit
ReduceType(f, dt) ==
  IF f \in {"add", "multiply"} THEN (IF Kind(dt) \in {"b", "i"} THEN "i8" ELSE IF Kind(dt) = "u" THEN "u8" ELSE dt)
  ELSE IF f \in Logical THEN "b1" ELSE dt
HasIdentity(f) == f \in {"add", "multiply"} \cup BitOps \cup Logical
\* what numpy returns for f.reduce of an empty array of dtype dt (in ReduceType(f, dt))
Identity(f, dt) ==
  LET rt == ReduceType(f, dt) IN
  CASE f = "add" -> Zero(rt) [] f = "multiply" -> One(rt)
    [] f = "bitwise_and" -> IF dt = "b1" THEN 1 ELSE IF Kind(dt) = "u" THEN 2 ^ Bits(dt) - 1 ELSE -1
    [] f \in {"bitwise_or", "bitwise_xor"} -> 0
    [] f = "logical_and" -> 1 [] OTHER -> 0
IdentityInRegime(f, dt) == ~(f = "bitwise_and" /\ Kind(dt) = "u" /\ Bits(dt) > 16)
\* fold of a non-empty or empty sequence q of dtype dt with binary ufunc f (left to right, numpy's order)
RECURSIVE FoldFrom(_, _, _, _, _)
FoldFrom(f, rt, q, k, acc) == IF k > Len(q) THEN acc ELSE FoldFrom(f, rt, q, k + 1, F2(f, rt, acc, q[k]))
ReduceSeq(f, dt, q) ==
  LET rt == ReduceType(f, dt)
      lt == IF f \in Logical THEN dt ELSE rt              \* logical loops look at the truth of the original values
      c == [i \in DOMAIN q |-> IF f \in Logical THEN B(Truth(dt, q[i])) ELSE Cast(dt, rt, q[i])]
      g == IF f \in Logical THEN (CASE f = "logical_and" -> "bitwise_and" [] f = "logical_or" -> "bitwise_or" [] OTHER -> "bitwise_xor") ELSE f
  IN IF q = <<>> THEN Identity(f, dt) ELSE FoldFrom(g, rt, c, 2, c[1])
\* accumulate (running fold); dtype: AccType
AccType(f, dt) == ReduceType(f, dt)
AccSeq(f, dt, q) == [i \in DOMAIN q |-> ReduceSeq(f, dt, SubSeq(q, 1, i))]
\* mean of a sequence as an exact rational (numpy: float64 for integers, the float type itself otherwise)
MeanType(dt) == IF IsFlt(dt) THEN dt ELSE "f8"
SumQ(dt, q) == LET c == [i \in DOMAIN q |-> IF IsFlt(dt) THEN q[i] ELSE <<q[i], 1>>] IN
               IF q = <<>> THEN QZero ELSE FoldFrom("add", "f8", c, 2, c[1])
MeanSeq(dt, q) == QDivInt(SumQ(dt, q), Len(q))
=======================================================================
