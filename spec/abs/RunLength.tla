---------------------------- MODULE RunLength ----------------------------
(***************************************************************************)
(* Level A specification of RunLengthArray (C14, C15, C16).               *)
(* A run-length array DENOTES a dense sequence; every operation is        *)
(* specified on the dense sequence with Python / numpy semantics (PySeq,  *)
(* NpVal).  What the library additionally promises about the ENCODING is  *)
(* stated as predicates on the observed run boundaries and run values:    *)
(*   Canonical: boundaries start at 0, increase strictly, end at length   *)
(*   NoAdjEq:   no two adjacent runs with equal values (required of       *)
(*              encoding, stepped slicing and ufuncs of two run-length    *)
(*              operands; NaN never equals its neighbour)                 *)
(*   Consistent: the boundaries / values decode to the dense content      *)
(*                                                                         *)
(* Expected outcomes:                                                      *)
(*   <<"rl", dt, dense, needNoAdj>>     a RunLengthArray                  *)
(*   <<"rlrows", dt, rows>>             a ragged run-length array         *)
(*   <<"flat", dt, seq>>  <<"scalar", dt, v>>  <<"unspec">>  <<"refused">>*)
(* Observed run-length outcomes carry the encoding:                        *)
(*   <<"rl", dt, dense, events, values>>                                  *)
(*   <<"rlrows", dt, rows, eventsRows, valuesRows>>                        *)
(***************************************************************************)
EXTENDS NpVal

RTag(x) == x[1]
R_UNSPEC == <<"unspec">>
R_REFUSED == <<"refused">>

\* ---- the encoding predicates
Canonical(ev, n) == /\ Len(ev) >= 1 /\ ev[1] = 0 /\ ev[Len(ev)] = n
                    /\ \A i \in 1..Len(ev) - 1 : ev[i] < ev[i + 1]
\* value equality as run detection sees it: NaN differs from everything
SameVal(dt, x, y) == IF IsFlt(dt) THEN (~IsNaN(x) /\ ~IsNaN(y) /\ x = y) ELSE x = y
NoAdjEq(dt, vals) == \A i \in 1..Len(vals) - 1 : ~SameVal(dt, vals[i], vals[i + 1])
\* dense content of an encoding
DecodeRuns(ev, vals) == FlatSeq([i \in DOMAIN vals |-> [k \in 1..(ev[i + 1] - ev[i]) |-> vals[i]]])
Consistent(ev, vals, dense) == Len(ev) = Len(vals) + 1 /\ (\A i \in 1..Len(ev) - 1 : ev[i] <= ev[i + 1]) /\ DecodeRuns(ev, vals) = dense
\* the canonical encoder (what from_array must produce, up to nothing: it is unique)
RunStarts(dt, a) == SelectSeq(Range(Len(a)), LAMBDA p : p = 0 \/ ~SameVal(dt, a[p + 1], a[p]))
EncodeEvents(dt, a) == Append(RunStarts(dt, a), Len(a))
EncodeValues(dt, a) == LET st == RunStarts(dt, a) IN [k \in DOMAIN st |-> a[st[k] + 1]]

(***************************************************************************)
(* C14 encode / decode                                                     *)
(***************************************************************************)
RoundTrip(dt, a, how) ==       \* how: "to_array" | "asarray" | "len" | "size" | "shape" | "dtype" | "encoding"
  IF a = <<>> THEN R_UNSPEC
  ELSE CASE how \in {"to_array", "asarray"} -> <<"flat", dt, a>>
         [] how \in {"len", "size"} -> <<"int", Len(a)>>
         [] how = "shape" -> <<"ints", <<Len(a)>>>>
         [] how = "dtype" -> <<"dtype", dt>>
         [] how = "encoding" -> <<"rl", dt, a, TRUE>>
         [] OTHER -> R_UNSPEC

(***************************************************************************)
(* C15 indexing                                                            *)
(* idx: <<"int", i>> <<"list", q>> <<"mask", m>> <<"rlmask", m>>          *)
(*      <<"slice", a, b, s>> <<"windows", starts, stops>> <<"all">>       *)
(***************************************************************************)
RLGetItem(dt, a, idx) ==
  LET n == Len(a)  k == RTag(idx) IN
  IF a = <<>> THEN R_UNSPEC
  ELSE CASE k = "int" -> LET p == NormInt(n, idx[2]) IN IF p < 0 THEN R_UNSPEC ELSE <<"scalar", dt, a[p + 1]>>
         [] k = "list" -> LET q == [i \in DOMAIN idx[2] |-> NormInt(n, idx[2][i])] IN
                          IF \E i \in DOMAIN q : q[i] < 0 THEN R_UNSPEC ELSE <<"flat", dt, Take(a, q)>>
         [] k = "mask" -> IF Len(idx[2]) # n THEN R_UNSPEC ELSE <<"flat", dt, Keep(a, idx[2])>>
         \* a 2-D array of positions (rows of equal length): the matrix of the addressed elements, as for any numpy array
         [] k = "list2d" -> IF idx[2] = <<>> \/ idx[2][1] = <<>> \/ (\E r1 \in DOMAIN idx[2] : Len(idx[2][r1]) # Len(idx[2][1]))
                               \/ (\E r2 \in DOMAIN idx[2] : \E c2 \in DOMAIN idx[2][r2] : NormInt(n, idx[2][r2][c2]) < 0) THEN R_UNSPEC
                            ELSE <<"matrix", dt, [r3 \in DOMAIN idx[2] |-> [c3 \in DOMAIN idx[2][r3] |-> a[NormInt(n, idx[2][r3][c3]) + 1]]]>>
         [] k = "rlmask" -> IF Len(idx[2]) # n THEN R_UNSPEC ELSE <<"rl", dt, Keep(a, idx[2]), FALSE>>
         [] k = "slice" -> IF idx[4] = 0 THEN R_UNSPEC
                           ELSE <<"rl", dt, SliceSeq(a, idx[2], idx[3], idx[4]), idx[4] \notin {NONE, 1}>>
         [] k = "windows" -> IF Len(idx[2]) # Len(idx[3]) \/ idx[2] = <<>>
                                \/ \E i \in DOMAIN idx[2] : ~(0 <= idx[2][i] /\ idx[2][i] < idx[3][i] /\ idx[3][i] <= n) THEN R_UNSPEC
                             ELSE <<"rlrows", dt, [i \in DOMAIN idx[2] |-> SubSeq(a, idx[2][i] + 1, idx[3][i])]>>
         [] k = "all" -> <<"rl", dt, a, FALSE>>
         [] OTHER -> R_UNSPEC

(***************************************************************************)
(* C16 arithmetic, reductions, concatenation                               *)
(* operand: <<"rl", dt, seq>> | <<"py", pk, v>> | <<"np", dt, v>> | <<"none">> *)
(***************************************************************************)
RLOpDT(o) == CASE RTag(o) \in {"rl", "np"} -> o[2] [] OTHER -> "b1"
RLUfunc(f, x, y) ==
  LET unary == RTag(y) = "none"
      rl == IF RTag(x) = "rl" THEN x ELSE y
      n == Len(rl[3])
      wx == RTag(x) = "py"  wy == RTag(y) = "py"
      rt == IF unary THEN RLOpDT(x)
            ELSE IF wx THEN ResultTypeWeak(RLOpDT(y), x[2]) ELSE IF wy THEN ResultTypeWeak(RLOpDT(x), y[2])
            ELSE ResultType(RLOpDT(x), RLOpDT(y))
      V(o, i) == CASE RTag(o) = "rl" -> Cast(o[2], rt, o[3][i])
                   [] RTag(o) = "np" -> Cast(o[2], rt, o[3])
                   [] OTHER -> (IF o[2] = "pyfloat" THEN o[3] ELSE IF IsFlt(rt) THEN <<o[3], 1>> ELSE o[3])
      badpy(o) == RTag(o) = "py" /\ ((o[2] = "pyfloat" /\ ~IsFlt(rt)) \/ (o[2] # "pyfloat" /\ ~IsFlt(rt) /\ ~Fits(rt, o[3])))
  IN IF RTag(x) # "rl" /\ RTag(y) # "rl" THEN R_UNSPEC
     ELSE IF n = 0 THEN R_UNSPEC
     ELSE IF unary THEN (IF f \notin Unary THEN R_UNSPEC ELSE IF NoLoop(f, rt) THEN R_REFUSED ELSE IF ~F1InRegime(f, rt) THEN R_UNSPEC
                         ELSE <<"rl", OutType(f, rt), [i \in 1..n |-> F1(f, rt, x[3][i])], FALSE>>)
     ELSE IF f \notin Binary THEN R_UNSPEC
     ELSE IF RTag(x) = "rl" /\ RTag(y) = "rl" /\ Len(x[3]) # Len(y[3]) THEN R_UNSPEC
     ELSE IF badpy(x) \/ badpy(y) THEN R_UNSPEC
     ELSE IF NoLoop(f, rt) THEN R_REFUSED
     ELSE IF \E i \in 1..n : ~BitInRegime(f, rt, V(x, i), V(y, i)) THEN R_UNSPEC
     ELSE <<"rl", OutType(f, rt), [i \in 1..n |-> F2(f, rt, V(x, i), V(y, i))], RTag(x) = "rl" /\ RTag(y) = "rl">>
RLReduce(name, dt, a) ==
  IF a = <<>> THEN R_UNSPEC
  ELSE CASE name = "sum" -> <<"scalar", ReduceType("add", dt), ReduceSeq("add", dt, a)>>
         [] name = "any" -> <<"scalar", "b1", ReduceSeq("logical_or", dt, a)>>
         [] name = "all" -> <<"scalar", "b1", ReduceSeq("logical_and", dt, a)>>
         [] name = "max" -> IF IsFlt(dt) /\ \E i \in DOMAIN a : IsNaN(a[i]) THEN R_UNSPEC ELSE <<"scalar", dt, ReduceSeq("maximum", dt, a)>>
         [] name = "mean" -> IF dt = "b1" THEN R_UNSPEC ELSE <<"scalar", MeanType(dt), MeanSeq(dt, a)>>
         [] OTHER -> R_UNSPEC
\* arrs: sequence of <<dt, seq>>; parts of different dtypes are promoted to their common dtype, as numpy's concatenate does
RECURSIVE RLCatDTFrom(_, _, _)
RLCatDTFrom(arrs, k, acc) == IF k > Len(arrs) THEN acc ELSE RLCatDTFrom(arrs, k + 1, ResultType(acc, arrs[k][1]))
RLCatDT(arrs) == RLCatDTFrom(arrs, 2, arrs[1][1])
RLConcat(arrs) ==
  IF arrs = <<>> \/ \E k \in DOMAIN arrs : arrs[k][2] = <<>> THEN R_UNSPEC
  ELSE LET dt == RLCatDT(arrs) IN
       IF \E k \in DOMAIN arrs : \E i \in DOMAIN arrs[k][2] : ~CastOK(arrs[k][1], dt, arrs[k][2][i]) THEN R_UNSPEC
       ELSE <<"rl", dt, FlatSeq([k \in DOMAIN arrs |-> [i \in DOMAIN arrs[k][2] |-> Cast(arrs[k][1], dt, arrs[k][2][i])]]), FALSE>>

RLExpect(c) ==
  LET op == c[1] IN
  CASE op = "rl_roundtrip" -> RoundTrip(c[2], c[3], c[4])
    [] op = "rl_getitem" -> RLGetItem(c[2], c[3], c[4])
    [] op = "rl_ufunc" -> RLUfunc(c[2], c[3], c[4])
    [] op = "rl_reduce" -> RLReduce(c[2], c[3], c[4])
    [] op = "rl_concat" -> RLConcat(c[2])
    \* from_array of a LONG array given run by run (<<value, length>> pairs; neighbouring pairs may hold equal values).  The promised
    \* encoding is unique - a boundary exactly where the value changes - and is computed here on the runs, without unfolding them:
    \* <<"rlenc", dt, total length, boundaries, values>>
    [] op = "rl_encode_runs" ->
         LET dt == c[2]  runs == c[3]
             keep == SelectSeq(Range(Len(runs)), LAMBDA i : i = 0 \/ ~SameVal(dt, runs[i + 1][1], runs[i][1]))      \* 0-based run indices
             Off(i) == SumSeq([j \in 1..i |-> runs[j][2]])                                                         \* cells before run i+1
         IN IF runs = <<>> \/ \E i \in DOMAIN runs : runs[i][2] < 1 THEN R_UNSPEC
            ELSE <<"rlenc", dt, Off(Len(runs)), Append([k \in DOMAIN keep |-> Off(keep[k])], Off(Len(runs))), [k \in DOMAIN keep |-> runs[keep[k] + 1][1]]>>
    \* astype: every element converted as ndarray.astype converts it (beyond the listed properties: part of the same arithmetic family)
    [] op = "rl_astype" -> IF c[3] = <<>> \/ \E i \in DOMAIN c[3] : ~CastOK(c[2], c[4], c[3][i]) THEN R_UNSPEC
                           ELSE <<"rl", c[4], [i \in DOMAIN c[3] |-> Cast(c[2], c[4], c[3][i])], FALSE>>
    \* the sum of a 64-bit array whose values are given as limbs: exact modulo 2^64, in the array's own dtype
    [] op = "rl_wsum" -> IF c[3] = <<>> \/ c[2] \notin {"i8", "u8", "i4", "u4", "i2", "u2"} \/ ~WideFits(c[3], c[2]) THEN R_UNSPEC
                         ELSE <<"scalar", ReduceType("add", c[2]), WideSum(c[3])>>    \* narrower dtypes: numpy adds them up in 64 bits
    \* np.histogram(rla) = np.histogram(decoded array): the property defines the expectation as numpy's own answer on the
    \* decoded array, so the harness evaluates both sides with numpy and the specification demands agreement
    [] op = "rl_hist" -> IF c[3] = <<>> THEN R_UNSPEC ELSE <<"bool", 1>>
    [] OTHER -> R_UNSPEC

(***************************************************************************)
(* verdicts for run-length outcomes (extends Judge for the "rl" tags)      *)
(***************************************************************************)
RLValsEq(dtE, qE, dtO, qO) == Len(qE) = Len(qO) /\ \A i \in DOMAIN qE :
   LET e == IF IsFlt(dtE) = IsFlt(dtO) \/ IsFlt(dtE) THEN qE[i] ELSE <<qE[i], 1>>
       o == IF IsFlt(dtE) = IsFlt(dtO) \/ IsFlt(dtO) THEN qO[i] ELSE <<qO[i], 1>>
   IN e = o \/ ((IsFlt(dtE) \/ IsFlt(dtO)) /\ e = <<0, 1>> /\ o = <<0, -1>>)               \* an arithmetic zero of either sign (see Judge!NumEq)
JudgeRL(exp, out, strict) ==      \* exp = <<"rl", dt, dense, needNoAdj>>, out = <<"rl", dt, dense, events, values>>
  IF out[1] # "rl" THEN "kind"
  ELSE IF strict /\ exp[2] # out[2] THEN "dtype"
  ELSE IF Len(exp[3]) # Len(out[3]) THEN "shape"
  ELSE IF ~RLValsEq(exp[2], exp[3], out[2], out[3]) THEN "value"
  ELSE IF ~Consistent(out[4], out[5], out[3]) THEN "inconsistent-encoding"
  ELSE IF ~Canonical(out[4], Len(out[3])) THEN "not-canonical"
  ELSE IF exp[4] /\ ~NoAdjEq(out[2], out[5]) THEN "adjacent-equal-runs"
  ELSE "ok"
JudgeRLRows(exp, out, strict) ==  \* exp = <<"rlrows", dt, rows>>, out = <<"rlrows", dt, rows, eventsRows, valuesRows>>
  IF out[1] # "rlrows" THEN "kind"
  ELSE IF strict /\ exp[2] # out[2] THEN "dtype"
  ELSE IF Len(exp[3]) # Len(out[3]) \/ \E r \in DOMAIN exp[3] : Len(exp[3][r]) # Len(out[3][r]) THEN "shape"
  ELSE IF \E r \in DOMAIN exp[3] : ~RLValsEq(exp[2], exp[3][r], out[2], out[3][r]) THEN "value"
  ELSE IF \E r \in DOMAIN out[3] : ~Consistent(out[4][r], out[5][r], out[3][r]) THEN "inconsistent-encoding"
  ELSE IF \E r \in DOMAIN out[3] : Len(out[4][r]) # Len(out[5][r]) + 1 THEN "lock-step"
  ELSE "ok"
=============================================================================
