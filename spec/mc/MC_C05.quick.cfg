CONSTANTS MaxRows = 3 MaxLen = 2 DTs = {"b1", "i1", "u1", "i8", "f8", "u2"}
INIT Init
NEXT Next
INVARIANT TypeOK
INVARIANT EmptyRowIdentity
INVARIANT NoAxisIsReductionOfRows
CHECK_DEADLOCK FALSE
