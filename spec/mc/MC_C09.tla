---------------------------- MODULE MC_C09 ----------------------------
(* Bounded instance for C09: every shape with at least one non-empty row x dtype x palette x column aggregate. *)
EXTENDS MCBase
CONSTANTS MaxRows, MaxLen, DTs
VARIABLES case, exp, phase
vars == <<case, exp, phase>>
LenVecs == {l \in LenVecsOf(MaxRows, MaxLen) : \E r \in DOMAIN l : l[r] > 0}
Init == /\ \E lens \in LenVecs : case = <<"seed", lens>>
        /\ exp = <<"seed">> /\ phase = 0
Next == /\ phase = 0
        /\ \E dt \in DTs, k \in {1, 2} :
              /\ ~(IsFlt(dt) /\ k = 2)
              /\ LET a == ArrP(dt, case[2], k) IN
                 \E c \in {<<"colsum", 0>>, <<"colmean", 0>>, <<"colcounts", 0>>} \cup {<<"colvalues", j>> : j \in 0..MaxLen} :
                    /\ case' = <<"col", c[1], a, c[2]>>
                    /\ exp' = Expect(case')
                    /\ phase' = 2
Spec == Init /\ [][Next]_vars
TypeOK == Tag(exp) \in {"flat", "unspec", "seed"}
\* every row that reaches column j is counted exactly once: the counts add up to the number of cells
CountsLemma == phase = 2 /\ case[2] = "colcounts" /\ Tag(exp) = "flat" =>
   /\ SumSeq(exp[3]) = Total(LensOf(case[3]))
   /\ Len(exp[3]) = MaxSeq(LensOf(case[3]))
   /\ \A j \in 1..Len(exp[3]) - 1 : exp[3][j] >= exp[3][j + 1]
\* the column sums add up to the sum of everything
SumLemma == phase = 2 /\ case[2] = "colsum" /\ Tag(exp) = "flat" /\ DT(case[3]) \in {"b1", "i8"} =>
   SumSeq(exp[3]) = ReduceSeq("add", DT(case[3]), FlatOf(case[3]))
=======================================================================
