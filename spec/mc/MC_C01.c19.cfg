CONSTANTS MaxRows = 3 MaxLen = 2 DTs = {"i8", "f8", "u1"}
INIT Init
NEXT Next
INVARIANT TypeOK
INVARIANT GeometryLemma
INVARIANT SizeMismatchRefused
CHECK_DEADLOCK FALSE
