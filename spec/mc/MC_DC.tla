---------------------------- MODULE MC_DC ----------------------------
(* Bounded instance for C18: 1..3 fields (1-D and 2-D), common length 0..MaxLen, the PySeq selector grid, lists of 1..3 objects,
   VarLenArray widths 1..3. *)
EXTENDS DataClass
CONSTANTS MaxLen, Bd
VARIABLES case, exp, phase
vars == <<case, exp, phase>>
Col1(f, n) == <<"1d", [i \in 1..n |-> 10 * f + i]>>
Col2(f, n, w) == <<"2d", [i \in 1..n |-> [j \in 1..w |-> 100 * f + 10 * i + j]]>>
Tables(n) == {<<<<"a">>, <<Col1(1, n)>>>>, <<<<"a", "b">>, <<Col1(1, n), Col1(2, n)>>>>, <<<<"a", "b">>, <<Col1(1, n), Col2(2, n, 2)>>>>,
              <<<<"a", "b", "c">>, <<Col2(1, n, 1), Col1(2, n), Col2(3, n, 3)>>>>}
Bnds == (-Bd..Bd) \cup {1000000}
Sels(n) == {<<"int", i>> : i \in -(n + 1)..n} \cup {<<"slice", a, b, s>> : a \in Bnds, b \in Bnds, s \in {1000000, -2, -1, 1, 2}}
           \cup {<<"list", <<>>>>} \cup {<<"list", <<i, j>>>> : i \in -n..(n - 1), j \in -n..(n - 1)} \cup {<<"mask", m>> : m \in [1..n -> {0, 1}]}
Init == /\ \E n \in 0..MaxLen : \E t \in Tables(n) : case = <<"seed", t, n>>
        /\ exp = <<"seed">> /\ phase = 0
Go(c) == case' = c /\ exp' = DCExpect(c) /\ phase' = 2
Mats(w) == {[i \in 1..k |-> [j \in 1..w |-> 10 * w + 3 * i + j]] : k \in 1..2}
Next == /\ phase = 0
        /\ LET t == case[2]  n == case[3] IN
           \/ Go(<<"dc_new", t>>) \/ Go(<<"dc_len", t>>) \/ Go(<<"dc_iter", t>>)
           \/ \E s \in Sels(n) : Go(<<"dc_getitem", t, s>>)
           \/ \E m \in 0..MaxLen : \E t2 \in {x \in Tables(m) : x[1] = t[1]} :
                 \/ Go(<<"dc_concat", <<t, t2>>>>) \/ Go(<<"dc_concat", <<t2, t, t2>>>>) \/ Go(<<"dc_eq", t, t2>>)
                 \/ (m # n /\ Len(t[1]) >= 2 /\ Go(<<"dc_new", <<t[1], <<t2[2][1]>> \o Tail(t[2])>>>>))      \* unequal lengths: refused
           \/ Go(<<"dc_concat", <<t>>>>) \/ Go(<<"dc_eq", t, t>>)
           \/ \E want \in {<<"a">>, <<"b">>, <<"b", "a">>, <<"c", "a">>, <<"a", "b">>, <<"c", "b", "a">>} : Go(<<"dc_astype", t, want>>)
           \/ n = 0 /\ Len(t[1]) = 1 /\ \E w1 \in 1..3, w2 \in 1..3, w3 \in 1..3 : \E m1 \in Mats(w1), m2 \in Mats(w2), m3 \in Mats(w3) :
                 \/ Go(<<"vl_concat", <<m1, m2>>>>) \/ Go(<<"vl_concat", <<m1, m2, m3>>>>)
Spec == Init /\ [][Next]_vars
TypeOK == DTag(exp) \in {"table", "entry", "entries", "int", "bool", "matrix2", "refused", "unspec", "seed"}
\* every column of every resulting table has the same length: alignment is preserved
AlignedLemma == phase = 2 /\ DTag(exp) = "table" => \A f \in DOMAIN exp[3] : Len(exp[3][f][2]) = Len(exp[3][1][2])
=======================================================================
