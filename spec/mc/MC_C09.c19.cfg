CONSTANTS MaxRows = 3 MaxLen = 2 DTs = {"i8", "f8"}
INIT Init
NEXT Next
INVARIANT TypeOK
INVARIANT CountsLemma
INVARIANT SumLemma
CHECK_DEADLOCK FALSE
