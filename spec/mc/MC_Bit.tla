---------------------------- MODULE MC_Bit ----------------------------
(***************************************************************************)
(* Bounded instance for C13: every b in {1,2,4,8,16,32}, lengths around   *)
(* every register boundary (0 .. 2*per+3, thinned for b = 1, 2), three    *)
(* content patterns, every window size 1..64/b, every position and a set  *)
(* of position lists.  MechEqualsAbs (packing by strided placement,       *)
(* register / slot addressing, window assembly from this and the next     *)
(* register) is checked on every (b, content) by TLC.                     *)
(***************************************************************************)
EXTENDS BitArray
CONSTANTS Bs, Thin
VARIABLES case, exp, phase
vars == <<case, exp, phase>>
Top(b) == IF b = 32 THEN <<65535, 65535>> ELSE 2 ^ b - 1
Dig(b, k, i) == \* content pattern k at position i (0-based)
  IF b = 32 THEN (CASE k = 1 -> <<(i * 7 + 3) % 65536, (i * 13 + 1) % 65536>> [] k = 2 -> <<65535, 65535>> [] OTHER -> <<i % 2, (i + 1) % 2>>)
  ELSE (CASE k = 1 -> (i * 7 + 3) % (2 ^ b) [] k = 2 -> 2 ^ b - 1 [] OTHER -> IF i % 2 = 0 THEN 2 ^ b - 1 ELSE 0)
Lengths(b) == LET p == Per(b) IN
  IF Thin /\ p > 16 THEN {0, 1, 2, 3, p - 1, p, p + 1, 2 * p - 1, 2 * p, 2 * p + 1, 2 * p + 3}
  ELSE 0..(2 * p + 3)
Arr(b, k, n) == [i \in 1..n |-> Dig(b, k, i - 1)]
Init == /\ \E b \in Bs, k \in {1, 2, 3} : \E n \in Lengths(b) : case = <<"seed", b, Arr(b, k, n)>>
        /\ exp = <<"seed">> /\ phase = 0
Go(c) == case' = c /\ exp' = BitExpect(c) /\ phase' = 2
Next == /\ phase = 0
        /\ LET b == case[2]  a == case[3]  n == Len(a) IN
           \/ Go(<<"bit_roundtrip", b, a>>) \/ Go(<<"bit_len", b, a>>)
           \/ \E i \in 0..(n - 1) : Go(<<"bit_get", b, a, i>>)
           \/ \E w \in 1..Per(b) : n >= w /\ Go(<<"bit_window", b, a, w>>)
           \/ n >= 1 /\ \E l \in {<<>>, <<0>>, <<n - 1>>, <<n - 1, 0>>, Range(n), Rev(Range(n)), <<0, 0, n - 1>>,
                                   [i \in 1..Mn(n, 3) |-> (i * 5) % n], [i \in 1..(n - n \div 2) |-> n \div 2 + i - 1], [i \in 1..Mn(n, Per(b) + 1) |-> i - 1]} :
                 Go(<<"bit_getlist", b, a, l>>)
Spec == Init /\ [][Next]_vars
TypeOK == BTag(exp) \in {"digits", "digit", "windows", "int", "unspec", "seed"}
MechEqualsAbs == phase = 0 => MechEqualsAbsAt(case[2], case[3])
=======================================================================
