CONSTANTS MaxLen = 3 Bd = 3
INIT Init
NEXT Next
INVARIANT TypeOK
INVARIANT AlignedLemma
CHECK_DEADLOCK FALSE
