CONSTANTS MaxRows = 3 MaxLen = 3 Bd = 4 Steps <- StepsAll
INIT Init
NEXT Next
INVARIANT TypeOK
INVARIANT CellsInside
INVARIANT IntRefusal
CHECK_DEADLOCK FALSE
