CONSTANTS Bs = {1, 2, 4, 8, 16, 32} Thin = FALSE
INIT Init
NEXT Next
INVARIANT TypeOK
INVARIANT MechEqualsAbs
CHECK_DEADLOCK FALSE
