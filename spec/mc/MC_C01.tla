---------------------------- MODULE MC_C01 ----------------------------
(* Bounded instance for C01: every shape x dtype x content palette x constructor x read-back. *)
EXTENDS MCBase
CONSTANTS MaxRows, MaxLen, DTs
VARIABLES case, exp, phase
vars == <<case, exp, phase>>
LenVecs == LenVecsOf(MaxRows, MaxLen)
Readers(lens) ==
  {<<"len">>, <<"size">>, <<"lengths">>, <<"shape">>, <<"dtype">>, <<"iter">>, <<"tolist">>, <<"copy">>, <<"ravel">>,
   <<"to_numpy">>, <<"save_load">>, <<"starts">>, <<"ends">>, <<"shape_size">>, <<"index_array">>}
  \cup {<<"astype", d>> : d \in DTs}
  \cup {<<"ravel_mi", IndexArray(lens), FlatSeq([r \in DOMAIN lens |-> Range(lens[r])])>>}
  \cup {<<"unravel", Range(Total(lens))>>, <<"unravel", Rev(Range(Total(lens)))>>}
Ctors(lens, dt, k) ==
  LET a == ArrP(dt, lens, k)  flat == FlatOf(a) IN
  {<<"rows", dt, a[2]>>, <<"flat", dt, flat, lens>>}
  \cup (IF lens # <<>> /\ \A r \in DOMAIN lens : lens[r] = lens[1] THEN {<<"matrix", dt, a[2]>>} ELSE {})
\* flat buffers whose size disagrees with the lengths: must be refused
BadCtors(lens, dt) ==
  LET n == Total(lens) IN
  {<<"flat", dt, [i \in 1..(n + d) |-> Cell(dt, 1, i)], lens>> : d \in {x \in {-2, -1, 1, 2} : n + x >= 0}}
Init == /\ \E lens \in LenVecs : case = <<"seed", lens>>
        /\ exp = <<"seed">> /\ phase = 0
Next == \/ /\ phase = 0
           /\ \E dt \in DTs, k \in {1, 2} : exp' = <<"seed", dt, k>>
           /\ phase' = 1 /\ UNCHANGED case
        \/ /\ phase = 1
           /\ LET lens == case[2]  dt == exp[2]  k == exp[3] IN
              \E ctor \in Ctors(lens, dt, k) \cup (IF k = 1 THEN BadCtors(lens, dt) ELSE {}) :
              \E rd \in Readers(lens) :
                 /\ case' = <<"readback", ctor, rd>>
                 /\ exp' = Expect(case')
                 /\ phase' = 2
Spec == Init /\ [][Next]_vars
OutTags == {"ragged", "flat", "matrix", "int", "ints", "pair", "dtype", "refused", "unspec", "seed"}
TypeOK == Tag(exp) \in OutTags
\* the geometry is the exclusive-prefix-sum geometry: consecutive rows tile the flat buffer
GeometryLemma ==
  phase = 2 /\ case[2][1] = "flat" /\ Tag(exp) # "refused" =>
     LET lens == case[2][4] IN
       /\ \A r \in DOMAIN lens : Starts(lens)[r] + lens[r] = Ends(lens)[r]
       /\ \A r \in 1..Len(lens) - 1 : Ends(lens)[r] = Starts(lens)[r + 1]
       /\ (lens # <<>> => Starts(lens)[1] = 0 /\ Ends(lens)[Len(lens)] = Total(lens))
       /\ \A f \in 0..Total(lens) - 1 : LET r == UnravelRow(lens, f) IN Starts(lens)[r + 1] <= f /\ f < Ends(lens)[r + 1]
\* a buffer of the wrong size is rejected
SizeMismatchRefused ==
  phase = 2 /\ case[2][1] = "flat" /\ Len(case[2][3]) # Total(case[2][4]) => Tag(exp) = "refused"
=======================================================================
