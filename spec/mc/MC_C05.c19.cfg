CONSTANTS MaxRows = 3 MaxLen = 2 DTs = {"i8", "b1"}
INIT Init
NEXT Next
INVARIANT TypeOK
INVARIANT EmptyRowIdentity
INVARIANT NoAxisIsReductionOfRows
CHECK_DEADLOCK FALSE
