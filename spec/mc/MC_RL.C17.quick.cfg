CONSTANTS Prop = "C17" MaxN = 2 DTs = {"i8", "b1"} Bd = 2
INIT Init
NEXT Next
INVARIANT TypeOK
INVARIANT EncoderLemma
INVARIANT SliceLemma
CHECK_DEADLOCK FALSE
