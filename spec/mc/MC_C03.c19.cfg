CONSTANTS MaxRows = 2 MaxLen = 2 Bd = 2 Steps <- StepsSmall
INIT Init
NEXT Next
INVARIANT TypeOK
INVARIANT FrameLemma
INVARIANT MismatchRefused
INVARIANT ScalarLemma
CHECK_DEADLOCK FALSE
