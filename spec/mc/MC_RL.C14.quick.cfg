CONSTANTS Prop = "C14" MaxN = 6 DTs = {"b1", "i1", "u1", "i8", "f4", "f8"} Bd = 0
INIT Init
NEXT Next
INVARIANT TypeOK
INVARIANT EncoderLemma
INVARIANT SliceLemma
CHECK_DEADLOCK FALSE
