CONSTANTS MaxRows = 3 MaxLen = 2 DTs = {"i8", "u1"}
INIT Init
NEXT Next
INVARIANT TypeOK
INVARIANT RowsKept
INVARIANT SortLemma
INVARIANT UniqueLemma
INVARIANT DiffLemma
CHECK_DEADLOCK FALSE
