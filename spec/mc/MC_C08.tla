---------------------------- MODULE MC_C08 ----------------------------
(***************************************************************************)
(* Bounded instance for C08: tuples of 1..3 operands for concatenation,   *)
(* every mask pattern for where / subset / mask indexing / nonzero, every *)
(* vector of per-row starts / ends within the rows for ragged_slice       *)
(* (ragged, 1-D and 2-D inputs), *_like and padding on every shape.       *)
(***************************************************************************)
EXTENDS MCBase
CONSTANTS MaxRows, MaxLen, CatRows, CatLen
VARIABLES case, exp, phase
vars == <<case, exp, phase>>
LenVecs == LenVecsOf(MaxRows, MaxLen)
CatVecs == LenVecsOf(CatRows, CatLen)
\* operand k of a concatenation gets ids 100*k + i so that provenance is visible
CatArr(lens, k) == <<"i8", Unflatten([i \in 1..Total(lens) |-> 100 * k + i], lens)>>
AllMasks(lens) == {[r \in DOMAIN lens |-> m[r]] : m \in [DOMAIN lens -> UNION {[1..L -> {0, 1}] : L \in 0..MaxLen}]}
MasksOf(lens) == {m \in [DOMAIN lens -> UNION {[1..L -> {0, 1}] : L \in 0..MaxLen}] : \A r \in DOMAIN lens : Len(m[r]) = lens[r]}
StartEnds(lens) == {<<s, e>> \in [DOMAIN lens -> 0..MaxLen] \X [DOMAIN lens -> -MaxLen..MaxLen] :
                       \A r \in DOMAIN lens : s[r] <= lens[r] /\ e[r] <= lens[r] /\ e[r] >= -lens[r]}
Init == /\ \E lens \in LenVecs \cup CatVecs : case = <<"seed", lens>>
        /\ exp = <<"seed">> /\ phase = 0
Go(c) == case' = c /\ exp' = Expect(c) /\ phase' = 2
Next == \/ /\ phase = 0 /\ case[2] \in CatVecs                       \* concatenation: this shape first, then up to two more
           /\ \/ \E ax \in {0, -1, 1} : Go(<<"concat", <<CatArr(case[2], 1)>>, ax>>)
              \/ \E l2 \in CatVecs, ax \in {0, -1} : Go(<<"concat", <<CatArr(case[2], 1), CatArr(l2, 2)>>, ax>>)
              \/ \E l2 \in CatVecs, l3 \in CatVecs : Go(<<"concat", <<CatArr(case[2], 1), CatArr(l2, 2), CatArr(l3, 3)>>, 0>>)
              \/ \E l2 \in CatVecs, l3 \in CatVecs : Len(l2) = Len(case[2]) /\ Len(l3) = Len(case[2])
                                                     /\ Go(<<"concat", <<CatArr(case[2], 1), CatArr(l2, 2), CatArr(l3, 3)>>, -1>>)
        \/ /\ phase = 0 /\ case[2] \in LenVecs
           /\ LET lens == case[2]  a == ArrIds(lens) IN
              \/ \E kd \in {"zeros", "ones", "empty"}, dt \in {"same", "f8", "b1", "u1"} : Go(<<"like", kd, ArrP("i1", lens, 1), dt>>)
              \/ \E sd \in {"left", "right"}, fill \in {0, -7} : Go(<<"pad", a, sd, fill>>)
              \/ \E m \in MasksOf(lens) :
                    \/ Go(<<"nonzero", <<"b1", m>>>>)
                    \/ Go(<<"nonzero", <<"i8", [r \in DOMAIN m |-> [c \in DOMAIN m[r] |-> m[r][c] * (c - 3)]]>>>>)
                    \/ Go(<<"where", <<"b1", m>>, a, <<"ra", CatArr(lens, 5)>>>>)
                    \/ Go(<<"where", <<"b1", m>>, a, <<"py", -1>>>>)
                    \/ Go(<<"subset", a, <<"b1", m>>>>)
                    \/ Go(<<"getitem", a, <<"rmask", m>>, <<"none">>>>)
              \/ \E se \in StartEnds(lens) :
                    \/ Go(<<"ragged_slice", <<"ra", a>>, <<"vec", se[1]>>, <<"vec", se[2]>>>>)
                    \/ Go(<<"ragged_slice", <<"ra", a>>, <<"none">>, <<"vec", se[2]>>>>)
                    \/ Go(<<"ragged_slice", <<"ra", a>>, <<"vec", se[1]>>, <<"none">>>>)
              \/ /\ lens # <<>> /\ \A r \in DOMAIN lens : lens[r] = lens[1]         \* 2-D and 1-D inputs
                 /\ \E se \in StartEnds(lens) :
                    \/ Go(<<"ragged_slice", <<"2d", "i8", a[2]>>, <<"vec", se[1]>>, <<"vec", se[2]>>>>)
                    \/ Go(<<"ragged_slice", <<"1d", "i8", a[2][1]>>, <<"vec", se[1]>>, <<"vec", se[2]>>>>)
Spec == Init /\ [][Next]_vars
TypeOK == Tag(exp) \in {"ragged", "flat", "matrix", "pair", "shape", "refused", "unspec", "seed"}
\* concatenation along rows keeps all rows of all operands in order
ConcatRowsLemma == phase = 2 /\ case[1] = "concat" /\ case[3] = 0 /\ Tag(exp) = "ragged" =>
   /\ Len(exp[3]) = SumSeq([k \in DOMAIN case[2] |-> NRows(case[2][k])])
   /\ FlatSeq(exp[3]) = FlatSeq([k \in DOMAIN case[2] |-> FlatOf(case[2][k])])
\* mask selection keeps exactly the true cells: sizes add up
SubsetLemma == phase = 2 /\ case[1] = "subset" /\ Tag(exp) = "ragged" =>
   \A r \in DOMAIN exp[3] : Len(exp[3][r]) = SumSeq(case[3][2][r])
\* nonzero coordinates are row-major and inside the array
NonzeroLemma == phase = 2 /\ case[1] = "nonzero" /\ Tag(exp) = "pair" =>
   /\ \A i \in 1..Len(exp[2]) - 1 : exp[2][i] < exp[2][i + 1] \/ (exp[2][i] = exp[2][i + 1] /\ exp[3][i] < exp[3][i + 1])
   /\ \A i \in DOMAIN exp[2] : exp[3][i] < Len(case[2][2][exp[2][i] + 1])
=======================================================================
