---------------------------- MODULE MC_Hash ----------------------------
(***************************************************************************)
(* Bounded instance of the HashTable / Counter machine (C11, C12): key    *)
(* sets from a small universe incl. negative keys, every modulus in Mods  *)
(* (1 = all keys collide; larger = empty buckets), three kinds of initial *)
(* values, and every history over the alphabet up to Depth.  TLC checks   *)
(* that the bucket / lazy-value mechanism refines the dictionary.         *)
(***************************************************************************)
EXTENDS HashTable
CONSTANTS Universe, MaxKeys, Mods, Depth, Alphabet, Kinds
VARIABLE hist
vars == <<tabs, mtabs, hlast, hist>>
U == Universe
UnivDef == {-3, 0, 1, 4, 5}
UnivSmall == {-3, 0, 1, 4}
UnivBig == {-3, -1, 0, 1, 4, 5, 6}
\* key sets as sequences in a scrambled (non-sorted) construction order
Perm(S) == LET q == CHOOSE q \in [1..Cardinality(S) -> S] : \A i, j \in 1..Cardinality(S) : i # j => q[i] # q[j] IN
           [i \in DOMAIN q |-> q[((i * 2) % Len(q)) + 1]]
KeySeqs == {Perm(S) : S \in {T \in SUBSET U : Cardinality(T) \in 1..MaxKeys /\ Cardinality(T) % 2 = 1}}
           \cup {q \in [1..2 -> U] : q[1] # q[2]}
Batches == {<<>>} \cup {<<a>> : a \in U} \cup {<<a, b>> : a \in U, b \in U} \cup {<<1, 1, 1>>, <<4, 0, 4, -3>>}
Queries == {<<a>> : a \in U} \cup {<<a, b>> : a \in U, b \in {1, 4}} \cup {<<1, 4, 1>>}
Rec(st) == hist' = Append(hist, st)
Init == HInit /\ hist = <<>>
Do(st) == HStep(st) /\ Rec(st)
Next ==
  \/ /\ hist = <<>>
     /\ \E ks \in KeySeqs, m \in Mods, init \in {"zero", "three", "perkey"}, kind \in Kinds :
          (kind = "set" => init = "zero") /\
          Do(<<"new", ks, IF init = "zero" THEN <<"scalar", 0>> ELSE IF init = "three" THEN <<"scalar", 3>>
                          ELSE <<"array", [i \in DOMAIN ks |-> 10 + i]>>,
               IF m = 0 THEN 2 * Len(ks) - 1 ELSE m, kind, "int">>)
  \/ /\ hist # <<>> /\ Len(hist) < Depth
     /\ \E t \in DOMAIN tabs :
        \/ Alphabet \in {"table", "both"} /\ hist[1][5] = "set" /\        \* HashSet: membership only
           (\/ \E q \in Queries : Do(<<"contains", t, q>>)
            \/ \E k \in U : Do(<<"containsone", t, k>>))
        \/ Alphabet \in {"table", "both"} /\ hist[1][5] # "set" /\
           (\/ \E q \in Queries : Do(<<"getvec", t, q>>)
            \/ \E k \in U : Do(<<"get", t, k>>)
            \/ \E q \in Queries : Do(<<"contains", t, q>>)
            \/ \E i \in DOMAIN tabs[t][1] : Do(<<"set", t, <<tabs[t][1][i]>>, <<"scalar", 7>>>>)
            \/ Len(tabs[t][1]) >= 2 /\ Do(<<"set", t, <<tabs[t][1][2], tabs[t][1][1]>>, <<"array", <<8, 9>>>>>>)
            \/ Len(tabs[t][1]) >= 2 /\ Do(<<"set", t, <<tabs[t][1][1], tabs[t][1][2], tabs[t][1][1]>>, <<"scalar", 6>>>>)
            \/ Do(<<"fill", t, 5>>)
            \/ Do(<<"zeros_like", t>>) \/ Do(<<"ones_like", t>>)
            \/ \E t2 \in DOMAIN tabs : Do(<<"add", t, t2>>) \/ Do(<<"eq", t, t2>>)
            \/ Do(<<"items", t>>)
            \/ Len(tabs) < 3 /\ Do(<<"new", hist[1][2], hist[1][3], hist[1][4], hist[1][5], "int", 1>>))      \* again from the same caller arrays
        \/ Alphabet \in {"counter", "both"} /\ hist[1][5] = "counter" /\
           (\/ \E b \in Batches : Do(<<"count", t, b>>)
            \/ \E q \in {<<tabs[t][1][1]>>} : Do(<<"getvec", t, q>>)
            \/ Len(tabs) < 2 /\ Do(<<"new", hist[1][2], hist[1][3], hist[1][4], hist[1][5], "int", 1>>))
Spec == Init /\ [][Next]_vars
MemberLemma == MembershipExact(U)
\* abstract lemmas about counting, checked once on every freshly built table
CountLemmas == Len(hist) = 1 /\ tabs # <<>> => SplitLemma(tabs[1], Batches) /\ OrderLemma(tabs[1], Batches)
=======================================================================
