---------------------------- MODULE MC_C07 ----------------------------
(* Bounded instance for C07: shapes x dtypes x palettes x scans / reorderings (diff of every order 0..3). *)
EXTENDS MCBase
CONSTANTS MaxRows, MaxLen, DTs
VARIABLES case, exp, phase
vars == <<case, exp, phase>>
LenVecs == LenVecsOf(MaxRows, MaxLen)
Funcs == {<<"cumsum", 0>>, <<"acc_add", 0>>, <<"acc_subtract", 0>>, <<"acc_bitwise_xor", 0>>, <<"sort", 0>>, <<"unique", 0>>,
          <<"unique_counts", 0>>} \cup {<<"diff", n>> : n \in 0..3}
Init == /\ \E lens \in LenVecs : case = <<"seed", lens>>
        /\ exp = <<"seed">> /\ phase = 0
Next == /\ phase = 0
        /\ \E dt \in DTs, k \in {1, 2, 3}, f \in Funcs :
              /\ ~(IsFlt(dt) /\ k = 2)                       \* NaN content: order is out of claim
              /\ (k = 3 => IsFlt(dt))                        \* k = 3: infinities (repeated ones too), no NaN
              /\ case' = <<"scan", f[1], ArrP(dt, case[2], k), f[2]>>
              /\ exp' = Expect(case')
              /\ phase' = 2
Spec == Init /\ [][Next]_vars
TypeOK == Tag(exp) \in {"ragged", "ragged2", "refused", "unspec", "seed"}
\* row count never changes; empty rows stay empty
RowsKept == phase = 2 /\ Tag(exp) \in {"ragged", "ragged2"} =>
   /\ Len(exp[3]) = NRows(case[3])
   /\ \A r \in DOMAIN exp[3] : case[3][2][r] = <<>> => exp[3][r] = <<>>
\* sorting permutes each row and orders it; unique is strictly increasing; counts add up to the row length
SortLemma == phase = 2 /\ case[2] = "sort" /\ Tag(exp) = "ragged" =>
   \A r \in DOMAIN exp[3] : /\ IsPerm(exp[3][r], case[3][2][r])
                            /\ \A i \in 1..Len(exp[3][r]) - 1 : ~SortLess(DT(case[3]), exp[3][r][i + 1], exp[3][r][i])
UniqueLemma == phase = 2 /\ case[2] = "unique_counts" /\ Tag(exp) = "ragged2" =>
   \A r \in DOMAIN exp[3] : /\ SumSeq(exp[4][r]) = Len(case[3][2][r])
                            /\ \A i \in 1..Len(exp[3][r]) - 1 : SortLess(DT(case[3]), exp[3][r][i], exp[3][r][i + 1])
DiffLemma == phase = 2 /\ case[2] = "diff" /\ Tag(exp) = "ragged" =>
   \A r \in DOMAIN exp[3] : Len(exp[3][r]) = Mx(Len(case[3][2][r]) - case[4], 0)
=======================================================================
