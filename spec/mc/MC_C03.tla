---------------------------- MODULE MC_C03 ----------------------------
(***************************************************************************)
(* Bounded instance for C03: every shape (distinct cell ids) x index       *)
(* expressions with non-repeating row selectors x five value kinds        *)
(* (scalar, flat row, column vector, matching ragged, mismatching ragged)  *)
(* plus assignment through every boolean ragged mask.  `exp` is the whole *)
(* content of the target afterwards, so "nothing else changed" is part of *)
(* every comparison; FrameLemma restates it on the model.                 *)
(***************************************************************************)
EXTENDS MCBase
CONSTANTS MaxRows, MaxLen, Bd, Steps
VARIABLES case, exp, phase
vars == <<case, exp, phase>>
StepsAll == {-3, -2, -1, 1, 2, 3}
StepsSmall == {-2, -1, 1, 3}
LenVecs == LenVecsOf(MaxRows, MaxLen)
Bnds == (-Bd..Bd) \cup {NONE}
StepSet == Steps \cup {NONE}
Slices == {<<"slice", a, b, s>> : a \in Bnds, b \in Bnds, s \in StepSet}
Ints == {<<"int", i>> : i \in -Bd..(Bd - 1)}
Lists(n) == {<<"list", <<>>>>} \cup {<<"list", <<i>>>> : i \in -n..(n - 1)}
            \cup {<<"list", <<i, j>>>> : i \in 0..(n - 1), j \in -n..(n - 1)}
            \cup (IF n >= 3 THEN {<<"list", <<2, 0, 1>>>>, <<"list", <<-1, 1>>>>} ELSE {})
Masks(n) == {<<"mask", m>> : m \in [1..n -> {0, 1}]}
RowSels(n) == Ints \cup Slices \cup Lists(n) \cup Masks(n) \cup {<<"all">>}
RepCols == {<<"none">>, <<"all">>, <<"int", 0>>, <<"int", -1>>, <<"int", 1>>, <<"int", -Bd>>, <<"int", Bd - 1>>,
            <<"slice", 1, NONE, NONE>>, <<"slice", NONE, -1, NONE>>, <<"slice", NONE, NONE, -1>>,
            <<"slice", NONE, NONE, 2>>, <<"slice", -2, NONE, -2>>, <<"slice", 0, -Bd, -3>>, <<"slice", 1, 3, NONE>>}
ColSels == {<<"none">>, <<"all">>} \cup Ints \cup Slices
RepRows(n) == {<<"all">>, <<"int", 0>>, <<"int", -1>>, <<"slice", NONE, NONE, NONE>>, <<"slice", 1, NONE, NONE>>,
               <<"slice", NONE, NONE, -1>>, <<"slice", NONE, NONE, 2>>, <<"mask", [i \in 1..n |-> i % 2]>>,
               <<"list", [i \in 1..n |-> n - i]>>}
\* the values to assign, built from the selection's own shape
Values(arr, rs, cs) ==
  LET CC == Cells(arr, rs, cs)  sel == SelKind(rs, cs) IN
  IF CC[1] # "ok" THEN {<<"scalar", 99>>}
  ELSE LET shp == Lens(CC[2])  cnt == Total(shp)
           match == [k \in DOMAIN shp |-> [j \in 1..shp[k] |-> 100 + 10 * k + j]]
           longer == IF shp = <<>> THEN <<<<100>>>> ELSE [match EXCEPT ![1] = Append(match[1], 555)]
           fewer == IF shp = <<>> THEN <<<<>>, <<>>>> ELSE SubSeq(match, 1, Len(match) - 1)
       IN {<<"scalar", 99>>}
          \cup (IF sel = "ragged" THEN {<<"ragged", match>>, <<"ragged", longer>>, <<"ragged", fewer>>} ELSE {})
          \cup (IF sel = "ragged" /\ shp # <<>> THEN {<<"col", [k \in DOMAIN shp |-> 200 + k]>>} ELSE {})
          \cup (IF sel \in {"row", "flat"} /\ cnt > 0 THEN {<<"flat", [i \in 1..cnt |-> 300 + i]>>} ELSE {})
Parts == {<<"rs", a>> : a \in Bnds} \cup {<<"rx", 0>>} \cup {<<"cs", a>> : a \in Bnds} \cup {<<"cx", 0>>, <<"rm", 0>>}
Init == /\ \E lens \in LenVecs : case = <<"setitem", ArrIds(lens), <<"all">>, <<"none">>, <<"scalar", 0>>>>
        /\ exp = <<"seed">> /\ phase = 0
Pick(rs, cs, v) == /\ case' = <<"setitem", case[2], rs, cs, v>>
                   /\ exp' = Expect(case')
                   /\ phase' = 2
PickAll(rs, cs) == \E v \in Values(case[2], rs, cs) : Pick(rs, cs, v)
Next == \/ /\ phase = 0
           /\ \E p \in Parts : exp' = <<"seed", p>>
           /\ phase' = 1 /\ UNCHANGED case
        \/ /\ phase = 1
           /\ LET n == NRows(case[2])  p == exp[2] IN
              CASE p[1] = "rs" -> \E b \in Bnds, st \in StepSet, cs \in RepCols : PickAll(<<"slice", p[2], b, st>>, cs)
                [] p[1] = "rx" -> \E rs \in Ints \cup Lists(n) \cup Masks(n) \cup {<<"all">>}, cs \in RepCols : PickAll(rs, cs)
                [] p[1] = "cs" -> \E b \in Bnds, st \in StepSet, rs \in RepRows(n) : PickAll(rs, <<"slice", p[2], b, st>>)
                [] p[1] = "cx" -> \E rs \in RepRows(n), cs \in {<<"none">>, <<"all">>} \cup Ints : PickAll(rs, cs)
                [] OTHER -> \* boolean ragged masks: every mask of the array's own shape, scalar and flat values
                     \E m \in [DOMAIN case[2][2] -> [1..MaxLen -> {0, 1}]] :
                        LET rm == <<"rmask", [r \in DOMAIN case[2][2] |-> SubSeq(m[r], 1, Len(case[2][2][r]))]>>
                            cnt == SumSeq([r \in DOMAIN rm[2] |-> SumSeq(rm[2][r])]) IN
                        \/ Pick(rm, <<"none">>, <<"scalar", 99>>)
                        \/ (cnt > 0 /\ Pick(rm, <<"none">>, <<"flat", [i \in 1..cnt |-> 300 + i]>>))
Spec == Init /\ [][Next]_vars
TypeOK == Tag(exp) \in {"array", "refused", "unspec", "seed"}
\* "every other cell, the number of rows and all row lengths are unchanged"
FrameLemma == phase = 2 /\ Tag(exp) = "array" /\ Tag(case[3]) # "rmask" => SetItemFrame(case[2], case[3], case[4], exp)
\* a ragged value of another shape is refused
MismatchRefused ==
  phase = 2 /\ Tag(case[5]) = "ragged" /\ Tag(exp) # "unspec" =>
     (Tag(exp) = "refused" <=> Lens(case[5][2]) # Lens(Cells(case[2], case[3], case[4])[2]))
\* the addressed cells hold the assigned values: for a scalar, exactly the addressed cells changed to it
ScalarLemma ==
  phase = 2 /\ Tag(exp) = "array" /\ Tag(case[5]) = "scalar" /\ Tag(case[3]) # "rmask" =>
     LET CC == Cells(case[2], case[3], case[4])  flat == FlatSeq(CC[2]) IN
       \A n \in DOMAIN flat : exp[3][flat[n][1] + 1][flat[n][2] + 1] = case[5][2]
=======================================================================
