CONSTANTS Prop = "C15" MaxN = 4 DTs = {"i8", "f8"} Bd = 6
INIT Init
NEXT Next
INVARIANT TypeOK
INVARIANT EncoderLemma
INVARIANT SliceLemma
CHECK_DEADLOCK FALSE
