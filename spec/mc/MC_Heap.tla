---------------------------- MODULE MC_Heap ----------------------------
(***************************************************************************)
(* Bounded instance of the heap machine (C06, C10, frame of C03).         *)
(* Programs are behaviours: the first step builds one of the base arrays, *)
(* every later step is drawn from the alphabet below and applied to any   *)
(* live handle; `hist` records the program so that every reachable state  *)
(* is one program prefix with the content level A demands for every       *)
(* handle (heap) and the content the mechanism model predicts (Mech).     *)
(* Read steps are free actions: TLC explores every placement of them.     *)
(***************************************************************************)
EXTENDS RaggedHeap
CONSTANTS Depth, MaxH, SelSet, AsgSet, FunSet, ReadSet
VARIABLE hist
vars == <<heap, alias, bufs, view, stale, last, anc, mayst, hist>>

Base1 == <<"i8", <<<<10, 11>>, <<>>, <<12, 13, 14>>>>>>
Base2 == <<"i8", <<<<>>, <<20>>, <<21, 22>>, <<>>>>>>
Base3 == <<"i8", <<<<30, 31, 32>>, <<33, 34>>>>>>                    \* no empty row: the library's shortcuts for such shapes
Bases == {Base1, Base2, Base3}
\* a float column vector fitting handle h, with an infinity in its first entry
ColFor(h) == <<"col", "f8", [i \in 1..Len(heap[h][2]) |-> IF i = 1 THEN <<1, 0>> ELSE <<i, 1>>]>>

\* ---- alphabets (selected per configuration through the constants)
Sels == [
  full |-> {<<<<"slice", 1, NONE, NONE>>, <<"none">>>>, <<<<"slice", NONE, NONE, -1>>, <<"none">>>>, <<<<"slice", NONE, NONE, 2>>, <<"none">>>>,
            <<<<"list", <<1, 0>>>>, <<"none">>>>, <<<<"mask", <<1, 0, 1>>>>, <<"none">>>>, <<<<"mask", <<0, 1, 1, 0>>>>, <<"none">>>>,
            <<<<"slice", NONE, NONE, NONE>>, <<"slice", 1, NONE, NONE>>>>, <<<<"slice", NONE, NONE, NONE>>, <<"slice", NONE, NONE, -1>>>>,
            <<<<"slice", 1, NONE, NONE>>, <<"slice", NONE, -1, NONE>>>>, <<<<"all">>, <<"slice", NONE, NONE, 2>>>>,
            <<<<"int", 0>>, <<"none">>>>, <<<<"int", -1>>, <<"slice", 1, NONE, NONE>>>>, <<<<"int", 0>>, <<"int", 1>>>>,
            <<<<"all">>, <<"none">>>>, <<<<"slice", NONE, NONE, NONE>>, <<"int", 0>>>>, <<<<"slice", NONE, NONE, NONE>>, <<"int", -1>>>>, <<<<"slice", NONE, NONE, NONE>>, <<"int", -2>>>>},
  small |-> {<<<<"slice", 1, NONE, NONE>>, <<"none">>>>, <<<<"slice", NONE, NONE, -1>>, <<"none">>>>,
             <<<<"slice", NONE, NONE, NONE>>, <<"slice", 1, NONE, NONE>>>>, <<<<"all">>, <<"slice", NONE, NONE, 2>>>>,
             <<<<"slice", NONE, NONE, NONE>>, <<"slice", NONE, NONE, -1>>>>, <<<<"int", 0>>, <<"none">>>>, <<<<"all">>, <<"none">>>>,
             <<<<"list", <<1, 0>>>>, <<"none">>>>, <<<<"slice", NONE, NONE, NONE>>, <<"int", -2>>>>}]
Asgs == [
  full |-> {<<<<"slice", 1, NONE, NONE>>, <<"none">>, <<"scalar", 99>>>>, <<<<"slice", NONE, NONE, 2>>, <<"none">>, <<"scalar", 98>>>>,
            <<<<"int", 0>>, <<"none">>, <<"scalar", 97>>>>, <<<<"slice", NONE, NONE, NONE>>, <<"slice", NONE, 1, NONE>>, <<"scalar", 96>>>>,
            <<<<"int", -1>>, <<"int", 0>>, <<"scalar", 95>>>>, <<<<"all">>, <<"none">>, <<"scalar", 94>>>>},
  small |-> {<<<<"slice", 1, NONE, NONE>>, <<"none">>, <<"scalar", 99>>>>, <<<<"int", 0>>, <<"none">>, <<"scalar", 97>>>>,
             <<<<"slice", NONE, NONE, NONE>>, <<"slice", NONE, 1, NONE>>, <<"scalar", 96>>>>}]
Funs == [
  full |-> {<<"ufunc", "add", <<"py", "pyint", 1>>>>, <<"ufunc", "self", 0>>, <<"func", "cumsum", 0>>, <<"func", "sort", 0>>,
            <<"func", "diff", 1>>, <<"func", "concat", 0>>, <<"func", "concat", -1>>, <<"func", "astype", 0>>, <<"func", "unique_obs", 0>>, <<"func", "nonzero_obs", 0>>, <<"ufunc", "addcol", 0>>, <<"func", "concat1", 0>>},
  small |-> {<<"ufunc", "add", <<"py", "pyint", 1>>>>, <<"func", "cumsum", 0>>, <<"func", "concat", 0>>, <<"ufunc", "addcol", 0>>, <<"func", "concat1", 0>>}]
Reads == [full |-> {"repr", "str", "tolist", "sum", "len", "unique", "cumsum", "pad", "colbroadcast", "getrow", "rowmean", "size", "pairs"}, small |-> {"repr", "len"}]

\* values are written in the target's own element type
ValFor(h, v) == IF IsFlt(heap[h][1]) THEN <<v, 1>> ELSE v
Rec(st) == hist' = Append(hist, st)
Init == HeapInit /\ hist = <<>>
NextStep ==
  \/ /\ hist = <<>> /\ \E b \in Bases : Step(<<"new", b>>) /\ Rec(<<"new", b>>)
  \/ /\ hist # <<>> /\ Len(hist) < Depth
     /\ ~(last[1] = "obs" /\ last[2][1] = "unspec")     \* a step outside every claim ends the program: nothing after it is specified
     /\ \E h \in Handles :
        \/ /\ Len(heap) < MaxH
           /\ \E s \in Sels[SelSet] : LET st == <<"select", h, s[1], s[2]>> IN Step(st) /\ Rec(st)
        \/ \E a \in Asgs[AsgSet] : LET st == <<"assign", h, a[1], a[2], <<"scalar", ValFor(h, a[3][2])>>>> IN Step(st) /\ Rec(st)
        \/ AsgSet = "full" /\ LET st == <<"fill", h, ValFor(h, 93)>> IN Step(st) /\ Rec(st)
        \/ /\ Len(heap) < MaxH
           /\ \E f \in Funs[FunSet] :
                LET st == CASE f[1] = "ufunc" /\ f[2] = "self" -> <<"ufunc", "add", <<"h", h>>, <<"h", h>>>>
                            [] f[1] = "ufunc" /\ f[2] = "addcol" -> <<"ufunc", "add", <<"h", h>>, ColFor(h)>>
                            [] f[1] = "ufunc" -> <<"ufunc", f[2], <<"h", h>>, f[3]>>
                            [] f[2] = "concat" -> <<"func", "concat", h, <<1, f[3]>>>>
                            [] OTHER -> <<"func", f[2], h, f[3]>>
                IN Step(st) /\ Rec(st)
        \/ \E k \in Reads[ReadSet] : LET st == <<"read", h, k>> IN Step(st) /\ Rec(st)
Spec == Init /\ [][NextStep]_vars

\* C10 at level A: a read changes no content
ReadPure == [][(hist' # hist /\ hist'[Len(hist')][1] = "read") => heap' = heap /\ alias' = alias]_vars
\* C03 / C06: an assignment changes only the aliases of its target, and never any row length
AssignFrame == [][(hist' # hist /\ hist'[Len(hist')][1] \in {"assign", "fill"}) =>
                    \A g \in Handles : /\ Lens(heap'[g][2]) = Lens(heap[g][2])
                                       /\ (alias[g] # alias[hist'[Len(hist')][2]] => heap'[g] = heap[g])]_vars
\* C06: a derived handle is an alias only through the whole-array forms
DerivedIsFresh == \A h \in Handles : alias[h] # h =>
   \E i \in DOMAIN hist : hist[i][1] = "select" /\ IsWhole(hist[i][3], hist[i][4])
=======================================================================
