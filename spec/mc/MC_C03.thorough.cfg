CONSTANTS MaxRows = 3 MaxLen = 3 Bd = 4 Steps <- StepsAll
INIT Init
NEXT Next
INVARIANT TypeOK
INVARIANT FrameLemma
INVARIANT MismatchRefused
INVARIANT ScalarLemma
CHECK_DEADLOCK FALSE
