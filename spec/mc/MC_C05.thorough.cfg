CONSTANTS MaxRows = 4 MaxLen = 3 DTs = {"b1", "i1", "u1", "i2", "i8", "f4", "f8"}
INIT Init
NEXT Next
INVARIANT TypeOK
INVARIANT EmptyRowIdentity
INVARIANT NoAxisIsReductionOfRows
CHECK_DEADLOCK FALSE
