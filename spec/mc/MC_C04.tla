---------------------------- MODULE MC_C04 ----------------------------
(***************************************************************************)
(* Bounded instance for C04: shapes x operand kinds x sides x dtype pairs  *)
(* x ufuncs.  Factored: every ufunc x representative dtype pairs, and     *)
(* representative ufuncs x every dtype pair.  Content comes from the      *)
(* palettes (8/16-bit wrap-around, NaN/inf, zeros).                        *)
(***************************************************************************)
EXTENDS MCBase
CONSTANTS MaxRows, MaxLen, DTs
VARIABLES case, exp, phase
vars == <<case, exp, phase>>
LenVecs == LenVecsOf(MaxRows, MaxLen)
RepPairs == {<<"i8", "i8">>, <<"u1", "i1">>, <<"i1", "f4">>, <<"b1", "b1">>, <<"f8", "i8">>, <<"u1", "u1">>, <<"b1", "i2">>}
RepUfuncs == {"add", "subtract", "less", "logical_and", "bitwise_xor", "maximum", "multiply"}
Pairs == {<<f, p>> : f \in Binary, p \in RepPairs} \cup {<<f, <<a, b>>>> : f \in RepUfuncs, a \in DTs, b \in DTs}
\* a different vector of row lengths with the same number of cells where possible (must still be refused)
OtherLens(lens) == IF lens = <<>> THEN <<1>>
                   ELSE IF Len(lens) >= 2 /\ lens[1] > 0 THEN [lens EXCEPT ![1] = lens[1] - 1, ![2] = lens[2] + 1]
                   ELSE [lens EXCEPT ![1] = lens[1] + 1]
PyScalars == {<<"py", "pyint", 2>>, <<"py", "pyint", -1>>, <<"py", "pyfloat", <<3, 2>>>>, <<"py", "pybool", 1>>, <<"py", "pyint", 0>>}
Others(lens, dt2, k) ==
  {<<"ra", ArrP2(dt2, lens, k)>>, <<"ra", ArrP(dt2, OtherLens(lens), k)>>,
   <<"np", dt2, Cell(dt2, k, 2)>>, <<"np", dt2, Cell(dt2, 2, 1)>>,
   <<"col", dt2, [r \in DOMAIN lens |-> Cell(dt2, k, r + 1)]>>,
   \* a column whose FIRST entry is the extreme of its palette (an infinity for floats) and whose later entries are ordinary values
   <<"col", dt2, [r \in DOMAIN lens |-> IF r = 1 THEN Cell(dt2, 2, 1) ELSE Cell(dt2, 1, r)]>>}
  \cup PyScalars
  \cup (IF lens # <<>> THEN {<<"collist", "pyint", [r \in DOMAIN lens |-> r - 2]>>} ELSE {})
Init == /\ \E lens \in LenVecs : case = <<"seed", lens>>
        /\ exp = <<"seed">> /\ phase = 0
Next == \/ /\ phase = 0
           /\ \E fp \in Pairs, k \in {1, 2} : exp' = <<"seed", fp, k>>
           /\ phase' = 1 /\ UNCHANGED case
        \/ /\ phase = 1
           /\ LET lens == case[2]  f == exp[2][1]  d1 == exp[2][2][1]  d2 == exp[2][2][2]  k == exp[3]
                  a == <<"ra", ArrP(d1, lens, k)>> IN
              \E b \in Others(lens, d2, k), swap \in {FALSE, TRUE} :
                 /\ case' = IF swap THEN <<"ufunc", f, b, a>> ELSE <<"ufunc", f, a, b>>
                 /\ exp' = Expect(case')
                 /\ phase' = 2
        \/ /\ phase = 0                     \* unary ufuncs
           /\ \E f \in Unary, dt \in DTs, k \in {1, 2} :
                 /\ case' = <<"ufunc", f, <<"ra", ArrP(dt, case[2], k)>>, <<"none">>>>
                 /\ exp' = Expect(case')
                 /\ phase' = 2
Spec == Init /\ [][Next]_vars
TypeOK == Tag(exp) \in {"ragged", "refused", "unspec", "seed"}
\* result keeps the row lengths of the ragged operand
ShapeLemma ==
  phase = 2 /\ Tag(exp) = "ragged" =>
     LET ra == IF Tag(case[3]) = "ra" THEN case[3] ELSE case[4] IN Lens(exp[3]) = LensOf(ra[2])
\* different row lengths are refused even when the totals agree
DifferentLengthsRefused ==
  phase = 2 /\ Tag(case[3]) = "ra" /\ Tag(case[4]) = "ra" /\ LensOf(case[3][2]) # LensOf(case[4][2]) => Tag(exp) \in {"refused", "unspec"}
\* promotion lattice: commutative, idempotent, monotone in width (checked once, on the initial states)
LatticeLemma ==
  phase = 0 => /\ \A a \in DTypes, b \in DTypes : ResultType(a, b) = ResultType(b, a)
               /\ \A a \in DTypes : ResultType(a, a) = a /\ ResultType("b1", a) = a
               /\ \A a \in DTypes, b \in DTypes : Bits(ResultType(a, b)) >= Mx(Bits(a), Bits(b)) \/ ResultType(a, b) = "f8"
=======================================================================
