CONSTANTS MaxRows = 3 MaxLen = 3 DTs = {"b1", "i1", "u1", "i2", "i8", "f4", "f8"}
INIT Init
NEXT Next
INVARIANT TypeOK
INVARIANT ShapeLemma
INVARIANT DifferentLengthsRefused
INVARIANT LatticeLemma
CHECK_DEADLOCK FALSE
