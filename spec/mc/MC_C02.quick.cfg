CONSTANTS MaxRows = 2 MaxLen = 3 Bd = 3 Steps <- StepsSmall
INIT Init
NEXT Next
INVARIANT TypeOK
INVARIANT CellsInside
INVARIANT IntRefusal
CHECK_DEADLOCK FALSE
