CONSTANTS Prop = "C15" MaxN = 5 DTs = {"i8", "b1", "f8"} Bd = 7
INIT Init
NEXT Next
INVARIANT TypeOK
INVARIANT EncoderLemma
INVARIANT SliceLemma
CHECK_DEADLOCK FALSE
