CONSTANTS Depth = 4 MaxH = 4 SelSet = "full" AsgSet = "full" FunSet = "full" ReadSet = "full"
SPECIFICATION Spec
INVARIANT RefinesModuloStale
INVARIANT WrongOnlyIfStale
INVARIANT StaleWithinMayStale
INVARIANT AliasesAgree
INVARIANT ContigOwnBuffer
INVARIANT DerivedIsFresh
PROPERTY ReadPure
PROPERTY AssignFrame
PROPERTY HeapOnlyGrows
CHECK_DEADLOCK FALSE
