CONSTANTS Depth = 5 MaxH = 3 SelSet = "small" AsgSet = "full" FunSet = "small" ReadSet = "full"
SPECIFICATION Spec
INVARIANT RefinesModuloStale
INVARIANT WrongOnlyIfStale
INVARIANT StaleWithinMayStale
INVARIANT AliasesAgree
INVARIANT ContigOwnBuffer
INVARIANT DerivedIsFresh
PROPERTY ReadPure
PROPERTY AssignFrame
PROPERTY HeapOnlyGrows
CHECK_DEADLOCK FALSE
