CONSTANTS MaxRows = 2 MaxLen = 2 DTs = {"b1", "i1", "u1", "i8", "f8", "i2"}
INIT Init
NEXT Next
INVARIANT TypeOK
INVARIANT ShapeLemma
INVARIANT DifferentLengthsRefused
INVARIANT LatticeLemma
CHECK_DEADLOCK FALSE
