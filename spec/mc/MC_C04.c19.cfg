CONSTANTS MaxRows = 2 MaxLen = 2 DTs = {"i1", "f8"}
INIT Init
NEXT Next
INVARIANT TypeOK
INVARIANT ShapeLemma
INVARIANT DifferentLengthsRefused
INVARIANT LatticeLemma
CHECK_DEADLOCK FALSE
