---------------------------- MODULE MC_C05 ----------------------------
(***************************************************************************)
(* Bounded instance for C05: every shape (empty rows first, last,         *)
(* consecutive, all rows empty, zero rows) x dtype x palette x every      *)
(* listed reduction x (axis -1 | axis 1 | no axis | keepdims).            *)
(***************************************************************************)
EXTENDS MCBase
CONSTANTS MaxRows, MaxLen, DTs
VARIABLES case, exp, phase
vars == <<case, exp, phase>>
LenVecs == LenVecsOf(MaxRows, MaxLen)
Named == {<<"n", x>> : x \in {"sum", "prod", "any", "all", "max", "min", "mean", "argmax", "argmin"}}
ByUfunc == {<<"r", f>> : f \in {"add", "multiply", "bitwise_and", "bitwise_or", "bitwise_xor",
                                "logical_and", "logical_or", "logical_xor", "maximum", "minimum"}}
Modes == {<<-1, 0>>, <<1, 0>>, <<NONE, 0>>, <<-1, 1>>}
\* palette 2 holds dtype extremes: products and 64-bit sums of those leave TLC's integers, so multiply uses palette 1 only
Init == /\ \E lens \in LenVecs : case = <<"seed", lens>>
        /\ exp = <<"seed">> /\ phase = 0
Next == \/ /\ phase = 0
           /\ \E dt \in DTs, k \in {1, 2, 3} : (k = 3 => IsFlt(dt)) /\ exp' = <<"seed", dt, k>>
           /\ phase' = 1 /\ UNCHANGED case
        \/ /\ phase = 1
           /\ LET lens == case[2]  dt == exp[2]  k == exp[3] IN
              \E nm \in Named \cup ByUfunc, m \in Modes :
                 /\ ~(nm[2] \in {"prod", "multiply"} /\ k = 2 /\ ~IsFlt(dt) /\ dt # "b1")
                 /\ ~(nm[1] = "r" /\ (m[1] = NONE \/ m[2] = 1))
                 /\ case' = <<"reduce", nm, ArrP(dt, lens, k), m[1], m[2]>>
                 /\ exp' = Expect(case')
                 /\ phase' = 2
Spec == Init /\ [][Next]_vars
TypeOK == Tag(exp) \in {"partial", "pcol", "scalar", "refused", "unspec", "seed"}
\* an empty row reduces to the identity, wherever it is
EmptyRowIdentity ==
  phase = 2 /\ Tag(exp) \in {"partial", "pcol"} /\ case[2][2] \in {"sum", "prod", "any", "all"} =>
     \A r \in DOMAIN case[3][2] : case[3][2][r] = <<>> =>
        exp[4][r] = 1 /\ exp[3][r] = Identity(RedUfunc(case[2][2]), DT(case[3]))
\* reducing with no axis equals reducing the row results again (for the associative-commutative reductions)
NoAxisIsReductionOfRows ==
  phase = 2 /\ Tag(exp) = "scalar" /\ case[2][2] \in {"sum", "any", "all"} =>
     LET f == RedUfunc(case[2][2])  dt == DT(case[3])
         per == [r \in DOMAIN case[3][2] |-> ReduceSeq(f, dt, case[3][2][r])] IN
       exp[3] = ReduceSeq(f, ReduceType(f, dt), per)
=======================================================================
