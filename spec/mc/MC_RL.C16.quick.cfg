CONSTANTS Prop = "C16" MaxN = 3 DTs = {"b1", "i1", "i8", "f8"} Bd = 0
INIT Init
NEXT Next
INVARIANT TypeOK
INVARIANT EncoderLemma
INVARIANT SliceLemma
CHECK_DEADLOCK FALSE
