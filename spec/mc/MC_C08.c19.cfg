CONSTANTS MaxRows = 2 MaxLen = 2 CatRows = 2 CatLen = 1
INIT Init
NEXT Next
INVARIANT TypeOK
INVARIANT ConcatRowsLemma
INVARIANT SubsetLemma
INVARIANT NonzeroLemma
CHECK_DEADLOCK FALSE
