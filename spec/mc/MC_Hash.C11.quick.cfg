CONSTANTS Universe <- UnivSmall MaxKeys = 3 Mods = {0, 1, 3} Depth = 3 Alphabet = "table" Kinds = {"table", "set"}
SPECIFICATION Spec
INVARIANT HashRefines
INVARIANT MemberLemma
INVARIANT CountLemmas
PROPERTY KeysFixed
CHECK_DEADLOCK FALSE
