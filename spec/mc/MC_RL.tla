---------------------------- MODULE MC_RL ----------------------------
(***************************************************************************)
(* Bounded instances for the run-length family (C14, C15, C16, C17),      *)
(* selected by the constant Prop.  Dense arrays are ALL sequences up to   *)
(* MaxN over a small value set per dtype (so every run layout occurs:     *)
(* all-equal, all-different, single element, nested / interleaved /       *)
(* coincident run boundaries for pairs).                                   *)
(***************************************************************************)
EXTENDS RunLength2d, TLC
CONSTANTS Prop, MaxN, DTs, Bd
VARIABLES case, exp, phase
vars == <<case, exp, phase>>
ValsOf(dt) == CASE dt = "b1" -> {0, 1}
                [] IsFlt(dt) -> {<<1, 2>>, <<-3, 1>>, <<0, 0>>}
                [] Kind(dt) = "u" -> {0, 3, IF Bits(dt) <= 16 THEN 2 ^ Bits(dt) - 1 ELSE 60000}      \* TLC integers are 32-bit
                [] dt \in {"i1", "i2"} -> {-2 ^ (Bits(dt) - 1), 0, 5}
                [] OTHER -> {-1, 0, 5}
Vals2(dt) == CASE dt = "b1" -> {0, 1} [] IsFlt(dt) -> {<<1, 2>>, <<-3, 1>>} [] Kind(dt) = "u" -> {0, 3} [] OTHER -> {-1, 2}
Seqs(dt, n) == UNION {[1..k -> ValsOf(dt)] : k \in 1..n}
Seqs2(dt, n) == UNION {[1..k -> Vals2(dt)] : k \in 1..n}
Bnds == (-Bd..Bd) \cup {NONE}
Steps == {NONE, -3, -2, -1, 1, 2, 3}
Go(c) == case' = c /\ exp' = RL2Expect(c) /\ phase' = 2
Init == /\ \E dt \in DTs : \E a \in (IF Prop = "C14" THEN Seqs(dt, MaxN) ELSE Seqs2(dt, MaxN)) : case = <<"seed", dt, a>>
        /\ exp = <<"seed">> /\ phase = 0
Masks(n) == [1..n -> {0, 1}]
RowSets(dt) == UNION {[1..k -> Seqs2(dt, 3)] : k \in 1..2}
Next ==
  /\ phase = 0
  /\ LET dt == case[2]  a == case[3]  n == Len(a) IN
     CASE Prop = "C14" -> \E how \in {"to_array", "asarray", "len", "size", "shape", "dtype", "encoding"} : Go(<<"rl_roundtrip", dt, a, how>>)
       [] Prop = "C15" ->
            \/ \E i \in -(n + 1)..n : Go(<<"rl_getitem", dt, a, <<"int", i>>>>)
            \/ \E lo \in Bnds, hi \in Bnds, st \in Steps : Go(<<"rl_getitem", dt, a, <<"slice", lo, hi, st>>>>)
            \/ \E m \in Masks(n) : Go(<<"rl_getitem", dt, a, <<"mask", m>>>>)
            \/ \E m \in Masks(n) : (\E i \in 1..n : m[i] = 1) /\ Go(<<"rl_getitem", dt, a, <<"rlmask", m>>>>)
            \/ \E i \in -n..(n - 1), j \in -n..(n - 1) : Go(<<"rl_getitem", dt, a, <<"list", <<i, j>>>>>>)
            \/ Go(<<"rl_getitem", dt, a, <<"list", <<>>>>>>) \/ Go(<<"rl_getitem", dt, a, <<"all">>>>)
            \/ \E s1 \in 0..(n - 1), s2 \in 0..(n - 1) : \E e1 \in (s1 + 1)..n, e2 \in (s2 + 1)..n :
                  Go(<<"rl_getitem", dt, a, <<"windows", <<s1, s2>>, <<e1, e2>>>>>>)
       [] Prop = "C16" ->
            \/ \E d2 \in DTs : \E b \in {q \in Seqs2(d2, MaxN) : Len(q) = n} :
                 \E f \in {"add", "subtract", "multiply", "maximum", "less", "equal", "logical_and", "bitwise_xor"} :
                    Go(<<"rl_ufunc", f, <<"rl", dt, a>>, <<"rl", d2, b>>>>)
            \/ \E f \in Binary, sc \in {<<"py", "pyint", 2>>, <<"py", "pyfloat", <<1, 2>>>>, <<"py", "pybool", 1>>, <<"np", "i8", -1>>, <<"np", "b1", 1>>}, sw \in BOOLEAN :
                 Go(IF sw THEN <<"rl_ufunc", f, sc, <<"rl", dt, a>>>> ELSE <<"rl_ufunc", f, <<"rl", dt, a>>, sc>>)
            \/ \E f \in Unary : Go(<<"rl_ufunc", f, <<"rl", dt, a>>, <<"none">>>>)
            \/ \E nm \in {"sum", "any", "all", "max", "mean"} : Go(<<"rl_reduce", nm, dt, a>>)
            \/ \E bins \in {0, 3} : Go(<<"rl_hist", dt, a, bins>>)
            \/ \E b \in Seqs2(dt, 2) : Go(<<"rl_concat", <<<<dt, a>>, <<dt, b>>>>>>)
            \/ \E b \in Seqs2(dt, 2) : Go(<<"rl_concat", <<<<dt, b>>, <<dt, a>>, <<dt, b>>>>>>)
       [] OTHER -> \* C17: the seed row `a` is the first row; further rows are added
            \E more \in {<<>>} \cup {<<q>> : q \in Seqs2(dt, MaxN)} \cup {<<q, q>> : q \in Seqs2(dt, 2)} :
              LET rows == <<a>> \o more
                  eq == \A r \in DOMAIN rows : Len(rows[r]) = n
                  objs == {<<"ragged", dt, rows>>} \cup (IF eq THEN {<<"matrix", dt, rows>>} ELSE {})
                          \cup (IF dt = "b1" /\ n >= 2 THEN {<<"intervals", <<0, 1>>, <<n, 2>>, n>>, <<"intervals", <<n - 1>>, <<n>>, n>>,
                                                                  \* an interval strictly inside its row followed by intervals covering whole rows, and the reverse
                                                                  <<"intervals", <<1, 0>>, <<n + 1, n + 2>>, n + 2>>, <<"intervals", <<1, 0, 0>>, <<n + 1, n + 2, n + 2>>, n + 2>>,
                                                                  <<"intervals", <<0, 1>>, <<n + 2, n + 1>>, n + 2>>} ELSE {})
                  nr == Len(rows)
              IN \E o \in objs :
                 \/ \E nm \in {"to_array", "len", "size", "shape", "sum", "any", "all", "max", "mean", "argmax", "colsum", "colmean", "colcounts", "colany", "ravel"} :
                       Go(<<"rl2_func", nm, o>>)
                 \/ \E rs \in {<<"int", i>> : i \in -nr..(nr - 1)} \cup {<<"all">>, <<"slice", NONE, NONE, -1>>, <<"slice", 1, NONE, NONE>>, <<"slice", NONE, NONE, 2>>,
                                <<"list", <<nr - 1, 0>>>>, <<"mask", [i \in 1..nr |-> i % 2]>>} :
                       \/ Go(<<"rl2_getitem", o, rs, <<"none">>>>)
                       \/ \E j \in -n..(n - 1) : Go(<<"rl2_getitem", o, rs, <<"int", j>>>>)
                       \/ o[1] = "ragged" /\ \E lo \in Bnds, hi \in Bnds, st \in Steps : Go(<<"rl2_getitem", o, rs, <<"slice", lo, hi, st>>>>)
                 \/ \E f \in {"add", "subtract", "multiply", "less", "maximum", "logical_or"}, sw \in BOOLEAN :
                       \E other \in {<<"py", "pyint", 3>>, <<"py", "pyfloat", <<1, 2>>>>, <<"col", "i8", [i \in 1..nr |-> i - 2]>>} :
                          Go(IF sw THEN <<"rl2_ufunc", f, other, <<"obj", o>>>> ELSE <<"rl2_ufunc", f, <<"obj", o>>, other>>)
                 \/ \E f \in Unary : Go(<<"rl2_ufunc", f, <<"obj", o>>, <<"none">>>>)
                 \/ Go(<<"rl2_concat", <<o, o>>>>)
                 \/ Go(<<"rl2_concat", <<o>>>>)
Spec == Init /\ [][Next]_vars
TypeOK == RTag(exp) \in {"rl", "rlrows", "flat", "scalar", "int", "ints", "dtype", "pair", "bool", "ragged", "matrix", "refused", "unspec", "seed"}
\* the canonical encoder is lossless and canonical (C14 on the model)
EncoderLemma == phase = 0 =>
   LET dt == case[2]  a == case[3] IN
     /\ DecodeRuns(EncodeEvents(dt, a), EncodeValues(dt, a)) = a
     /\ Canonical(EncodeEvents(dt, a), Len(a)) /\ NoAdjEq(dt, EncodeValues(dt, a))
\* slicing then encoding canonically never yields adjacent equal runs: the requirement on stepped slices is satisfiable
SliceLemma == phase = 2 /\ case[1] = "rl_getitem" /\ RTag(exp) = "rl" => Len(exp[3]) <= Len(case[3])
=======================================================================
