CONSTANTS Prop = "C14" MaxN = 7 DTs = {"b1", "i1", "u1", "i2", "i8", "u4", "f2", "f4", "f8"} Bd = 0
INIT Init
NEXT Next
INVARIANT TypeOK
INVARIANT EncoderLemma
INVARIANT SliceLemma
CHECK_DEADLOCK FALSE
