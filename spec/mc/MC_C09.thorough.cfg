CONSTANTS MaxRows = 4 MaxLen = 4 DTs = {"b1", "i1", "u1", "i8", "f4", "f8"}
INIT Init
NEXT Next
INVARIANT TypeOK
INVARIANT CountsLemma
INVARIANT SumLemma
CHECK_DEADLOCK FALSE
