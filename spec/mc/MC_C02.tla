---------------------------- MODULE MC_C02 ----------------------------
(***************************************************************************)
(* Bounded instance for C02: every ragged shape up to MaxRows x MaxLen    *)
(* (empty rows anywhere, zero rows) with distinct cell ids as content,    *)
(* crossed with the selector grammar.  The product is factored:           *)
(*   every row selector  x  representative column selectors               *)
(*   representative row selectors  x  every column selector.              *)
(* Each state with phase = 2 is one implementation test: `case` is the    *)
(* operation, `exp` the outcome level A demands.                          *)
(***************************************************************************)
EXTENDS Ragged, TLC
CONSTANTS MaxRows, MaxLen, Bd, Steps
VARIABLES case, exp, phase
vars == <<case, exp, phase>>

StepsAll == {-3, -2, -1, 1, 2, 3}
StepsSmall == {-2, -1, 1, 3}
LenVecs == UNION {[1..n -> 0..MaxLen] : n \in 0..MaxRows}
ArrOf(lens) == <<"i8", Unflatten([i \in 1..Total(lens) |-> 9 + i], lens)>>
Far == 1073741824                         \* 2^30: a bound far beyond any row, still inside 32-bit index arithmetic (times a view's stride it is not)
Bnds == (-Bd..Bd) \cup {NONE, Far}
StepSet == Steps \cup {NONE}
Slices == {<<"slice", a, b, s>> : a \in Bnds, b \in Bnds, s \in StepSet}
Ints == {<<"int", i>> : i \in -Bd..(Bd - 1)}
Lists(n) == {<<"list", <<>>>>} \cup {<<"list", <<i>>>> : i \in -n..(n - 1)}
            \cup {<<"list", <<i, j>>>> : i \in -n..(n - 1), j \in -n..(n - 1)}
            \cup (IF n >= 3 THEN {<<"list", <<2, 0, 1>>>>, <<"list", <<-1, 1, -1>>>>} ELSE {})
            \cup {<<"list", <<n>>>>, <<"list", <<-n - 1>>>>, <<"list", <<0, n>>>>}            \* an entry that does not exist: refused
Masks(n) == {<<"mask", m>> : m \in [1..n -> {0, 1}]}
RowSels(n) == Ints \cup Slices \cup Lists(n) \cup Masks(n) \cup {<<"all">>}
ColSels == {<<"none">>, <<"all">>} \cup Ints \cup Slices
RepCols == {<<"none">>, <<"all">>, <<"int", 0>>, <<"int", -1>>, <<"int", 1>>, <<"int", -2>>,
            <<"slice", 1, NONE, NONE>>, <<"slice", NONE, -1, NONE>>, <<"slice", NONE, NONE, -1>>,
            <<"slice", NONE, NONE, 2>>, <<"slice", -2, NONE, -2>>, <<"slice", 1, NONE, -1>>, <<"slice", 0, -Bd, -3>>,
            <<"slice", 1, 3, NONE>>, <<"slice", Bd, 0, -1>>}
RepRows(n) == {<<"all">>, <<"int", 0>>, <<"int", -1>>, <<"int", 1>>, <<"slice", NONE, NONE, NONE>>, <<"slice", 1, NONE, NONE>>,
               <<"slice", NONE, NONE, -1>>, <<"slice", NONE, NONE, 2>>, <<"slice", NONE, -1, NONE>>,
               <<"mask", [i \in 1..n |-> 1]>>, <<"mask", [i \in 1..n |-> i % 2]>>,
               <<"list", [i \in 1..n |-> n - i]>>}

\* Enumeration is spread over three levels so that TLC's workers share it: shape -> part -> selector pair.
Parts == {<<"rs", a>> : a \in Bnds} \cup {<<"rx", 0>>} \cup {<<"cs", a>> : a \in Bnds} \cup {<<"cx", 0>>}
Init == /\ \E lens \in LenVecs : case = <<"getitem", ArrOf(lens), <<"all">>, <<"none">>>>
        /\ exp = <<"seed">> /\ phase = 0
Pick(rs, cs) == /\ case' = <<"getitem", case[2], rs, cs>>
                /\ exp' = Expect(case')
                /\ phase' = 2
Next == \/ /\ phase = 0
           /\ \E p \in Parts : exp' = <<"seed", p>>
           /\ phase' = 1 /\ UNCHANGED case
        \/ /\ phase = 1
           /\ LET n == NRows(case[2])  p == exp[2] IN
              CASE p[1] = "rs" -> \E b \in Bnds, st \in StepSet, cs \in RepCols : Pick(<<"slice", p[2], b, st>>, cs)
                [] p[1] = "rx" -> \E rs \in Ints \cup Lists(n) \cup Masks(n) \cup {<<"all">>}, cs \in RepCols : Pick(rs, cs)
                [] p[1] = "cs" -> \E b \in Bnds, st \in StepSet, rs \in RepRows(n) : Pick(rs, <<"slice", p[2], b, st>>)
                [] OTHER -> \E rs \in RepRows(n), cs \in {<<"none">>, <<"all">>} \cup Ints : Pick(rs, cs)
Spec == Init /\ [][Next]_vars

OutTags == {"ragged", "row", "flat", "scalar", "refused", "unspec", "seed"}
TypeOK == Tag(exp) \in OutTags /\ phase \in {0, 1, 2}
\* the property's last sentence, restated on the model: every returned value is the content of a cell of an
\* addressed row, and a ragged result has exactly one row per selected row
Ids(arr, r) == {arr[2][r + 1][c] : c \in DOMAIN arr[2][r + 1]}
CellsInside ==
  phase = 2 /\ Tag(exp) = "ragged" =>
     LET RR == RowsOf(case[3], NRows(case[2])) IN
       /\ RR[1] = "ok" /\ Len(exp[3]) = Len(RR[2])
       /\ \A k \in DOMAIN exp[3] : \A j \in DOMAIN exp[3][k] : exp[3][k][j] \in Ids(case[2], RR[2][k])
\* an integer that does not exist is refused, never silently wrapped
IntRefusal ==
  phase = 2 /\ Tag(case[3]) = "int" /\ ~(case[3][2] \in -NRows(case[2])..(NRows(case[2]) - 1)) => Tag(exp) = "refused"
=======================================================================
