CONSTANTS Universe <- UnivSmall MaxKeys = 3 Mods = {0, 1, 2, 5} Depth = 4 Alphabet = "counter" Kinds = {"counter"}
SPECIFICATION Spec
INVARIANT HashRefines
INVARIANT MemberLemma
INVARIANT CountLemmas
PROPERTY KeysFixed
CHECK_DEADLOCK FALSE
