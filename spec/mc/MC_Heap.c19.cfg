CONSTANTS Depth = 3 MaxH = 3 SelSet = "full" AsgSet = "full" FunSet = "full" ReadSet = "small"
SPECIFICATION Spec
INVARIANT RefinesModuloStale
INVARIANT WrongOnlyIfStale
INVARIANT StaleWithinMayStale
INVARIANT AliasesAgree
INVARIANT ContigOwnBuffer
INVARIANT DerivedIsFresh
PROPERTY ReadPure
PROPERTY AssignFrame
PROPERTY HeapOnlyGrows
CHECK_DEADLOCK FALSE
