CONSTANTS Prop = "C17" MaxN = 3 DTs = {"i8", "b1", "f8"} Bd = 4
INIT Init
NEXT Next
INVARIANT TypeOK
INVARIANT EncoderLemma
INVARIANT SliceLemma
CHECK_DEADLOCK FALSE
