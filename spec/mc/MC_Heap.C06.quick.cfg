CONSTANTS Depth = 4 MaxH = 4 SelSet = "full" AsgSet = "small" FunSet = "small" ReadSet = "small"
SPECIFICATION Spec
INVARIANT RefinesModuloStale
INVARIANT WrongOnlyIfStale
INVARIANT StaleWithinMayStale
INVARIANT AliasesAgree
INVARIANT ContigOwnBuffer
INVARIANT DerivedIsFresh
PROPERTY ReadPure
PROPERTY AssignFrame
PROPERTY HeapOnlyGrows
CHECK_DEADLOCK FALSE
