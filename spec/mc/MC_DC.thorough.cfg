CONSTANTS MaxLen = 4 Bd = 5
INIT Init
NEXT Next
INVARIANT TypeOK
INVARIANT AlignedLemma
CHECK_DEADLOCK FALSE
