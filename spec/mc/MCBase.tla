---------------------------- MODULE MCBase ----------------------------
(* Shared by the bounded instances: shapes, content palettes, value sets. *)
EXTENDS Ragged, TLC
\* all row-length vectors with 0..R rows and lengths 0..L: empty rows first, last, consecutive, only
LenVecsOf(R, L) == UNION {[1..n -> 0..L] : n \in 0..R}
\* content palettes per dtype: k = 1 ordinary values (negatives, zero, duplicates), k = 2 extremes / special values
Pal(dt, k) ==
  CASE dt = "b1" -> IF k = 1 THEN <<1, 0, 1, 1, 0, 0, 1>> ELSE <<0, 0, 1, 0, 0>>
    [] dt = "i1" -> IF k = 1 THEN <<3, -1, 0, 7, -5, 3, 2>> ELSE <<127, -128, 100, -100, 1, 127>>
    [] dt = "u1" -> IF k = 1 THEN <<3, 1, 0, 7, 5, 3, 2>> ELSE <<255, 0, 200, 100, 1, 255>>
    [] dt = "i2" -> IF k = 1 THEN <<3, -1, 0, 7, -5, 3, 2>> ELSE <<32767, -32768, 20000, -20000, 1>>
    [] dt = "u2" -> IF k = 1 THEN <<3, 1, 0, 7, 5, 3, 2>> ELSE <<65535, 0, 40000, 30000, 1>>
    [] dt \in {"i4", "i8"} -> IF k = 1 THEN <<3, -1, 0, 7, -5, 3, 2>> ELSE <<1000, -1000, 0, 999, -7, 1000>>
    [] dt \in {"u4", "u8"} -> IF k = 1 THEN <<3, 1, 0, 7, 5, 3, 2>> ELSE <<1000, 0, 999, 7, 1000>>
    [] OTHER -> IF k = 1 THEN <<<<3, 2>>, <<-1, 4>>, <<0, 1>>, <<7, 1>>, <<-5, 2>>, <<3, 2>>, <<2, 1>>>>
                ELSE IF k = 2 THEN <<<<1, 0>>, <<-1, 0>>, <<0, 0>>, <<1, 2>>, <<-3, 1>>, <<1, 0>>>>
                ELSE <<<<1, 0>>, <<1, 2>>, <<-3, 1>>, <<7, 1>>, <<-1, 0>>, <<-1, 0>>, <<1, 0>>>>      \* k = 3: infinities, no NaN
Cell(dt, k, i) == Pal(dt, k)[((i - 1) % Len(Pal(dt, k))) + 1]
ArrP(dt, lens, k) == <<dt, Unflatten([i \in 1..Total(lens) |-> Cell(dt, k, i)], lens)>>
\* a second array of the same shape with different content (shifted palette)
ArrP2(dt, lens, k) == <<dt, Unflatten([i \in 1..Total(lens) |-> Cell(dt, k, i + 3)], lens)>>
\* distinct ids (for operations that only move values)
ArrIds(lens) == <<"i8", Unflatten([i \in 1..Total(lens) |-> 9 + i], lens)>>
=======================================================================
