CONSTANTS MaxRows = 3 MaxLen = 3 DTs = {"b1", "i1", "u1", "i8", "f8", "u2"}
INIT Init
NEXT Next
INVARIANT TypeOK
INVARIANT CountsLemma
INVARIANT SumLemma
CHECK_DEADLOCK FALSE
