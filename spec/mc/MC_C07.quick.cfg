CONSTANTS MaxRows = 3 MaxLen = 3 DTs = {"b1", "i1", "u1", "i8", "f8", "i2"}
INIT Init
NEXT Next
INVARIANT TypeOK
INVARIANT RowsKept
INVARIANT SortLemma
INVARIANT UniqueLemma
INVARIANT DiffLemma
CHECK_DEADLOCK FALSE
