CONSTANTS Universe <- UnivDef MaxKeys = 3 Mods = {0, 1, 2, 3} Depth = 3 Alphabet = "table" Kinds = {"table", "counter", "set"}
SPECIFICATION Spec
INVARIANT HashRefines
INVARIANT MemberLemma
INVARIANT CountLemmas
PROPERTY KeysFixed
CHECK_DEADLOCK FALSE
