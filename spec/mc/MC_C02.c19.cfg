CONSTANTS MaxRows = 2 MaxLen = 2 Bd = 2 Steps <- StepsSmall
INIT Init
NEXT Next
INVARIANT TypeOK
INVARIANT CellsInside
INVARIANT IntRefusal
CHECK_DEADLOCK FALSE
