CONSTANTS MaxLen = 4 Bd = 5
SPECIFICATION Spec
INVARIANT SingleOK
INVARIANT ComposeOK
INVARIANT IntOK
INVARIANT BuildOK
CHECK_DEADLOCK FALSE
