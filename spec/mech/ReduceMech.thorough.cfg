CONSTANTS MaxRows = 5 MaxLen = 3
INIT Init
NEXT Next
INVARIANT ReduceOK
INVARIANT ReduceNeverFails
INVARIANT BroadcastOK
INVARIANT AccumulateOK
INVARIANT CumsumOK
CHECK_DEADLOCK FALSE
