---------------------------- MODULE MC_ShapeMech ----------------------------
EXTENDS ShapeMech
CONSTANTS MaxLen, Bd
VARIABLES len, s1, s2, rows
vars == <<len, s1, s2, rows>>
Bnds == (-Bd..Bd) \cup {NONE}
StepSet == {NONE, -3, -2, -1, 1, 2, 3}
Slices == {<<a, b, s>> : a \in Bnds, b \in Bnds, s \in StepSet}
Init == len \in 0..MaxLen /\ s1 \in Slices /\ s2 = <<NONE, NONE, NONE>> /\ rows = <<>>
Next == \/ s2 = <<NONE, NONE, NONE>> /\ rows = <<>> /\ s2' \in Slices /\ UNCHANGED <<len, s1, rows>>
        \/ rows = <<>> /\ s2 = <<NONE, NONE, NONE>> /\ rows' \in [1..3 -> 0..2] /\ UNCHANGED <<len, s1, s2>>
Spec == Init /\ [][Next]_vars
Parent == [i \in 1..len |-> 100 + i]                       \* the parent row's cells sit at buffer positions 101..100+len
V1 == ColSlice(FreshRow(101, len), s1[1], s1[2], s1[3])
P1 == SliceIdx(len, s1[1], s1[2], s1[3])
\* a single column slice of a fresh row is Python's slice
SingleOK == Positions(V1) = [i \in DOMAIN P1 |-> 101 + P1[i]]
\* slicing the resulting (strided / reversed) view again composes
ComposeOK == LET v2 == ColSlice(V1, s2[1], s2[2], s2[3])
                 p2 == SliceIdx(Len(P1), s2[1], s2[2], s2[3]) IN
             Positions(v2) = [i \in DOMAIN p2 |-> 101 + P1[p2[i] + 1]]
IntOK == \A j \in -Len(P1)..(Len(P1) - 1) : Positions(ColInt(V1, j)) = <<101 + P1[NormInt(Len(P1), j) + 1]>>
\* several rows of the same column slice laid out in one buffer: build_indices gathers exactly the rows' cells
BuildOK == rows # <<>> =>
   LET st == IF s1[3] = NONE THEN 1 ELSE s1[3]
       base == [r \in DOMAIN rows |-> FreshRow(10 * r, rows[r] + len)]
       vs == [r \in DOMAIN rows |-> ColSlice(base[r], s1[1], s1[2], s1[3])]
   IN BuildIndices(vs, st) = FlatSeq([r \in DOMAIN vs |-> Positions(vs[r])])
=============================================================================
