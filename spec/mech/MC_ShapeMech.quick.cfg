CONSTANTS MaxLen = 3 Bd = 3
SPECIFICATION Spec
INVARIANT SingleOK
INVARIANT ComposeOK
INVARIANT IntOK
INVARIANT BuildOK
CHECK_DEADLOCK FALSE
