---------------------------- MODULE CodeWordApa ----------------------------
(* Unbounded lemma (Apalache, SMT over Int) behind the 32-bit index configuration (C19): ViewBase stores the row geometry as
   interleaved (start, length) codes.  Under 64-bit indices rows are selected from `codes.reshape(-1, 2)`; under 32-bit indices
   each pair is viewed as ONE unsigned 64-bit word (`codes.view(uint64)`, little endian: word = start + length * 2^32, both
   read as unsigned 32-bit patterns), the words are selected, and the result is viewed as int32 pairs again.  The two agree for
   every selection if and only if packing is injective and unpacking inverts it - for every start and length that a 32-bit
   signed code can hold (negative codes occur transiently: `new_codes[::2] -= new_codes[0]`). *)
EXTENDS Integers
VARIABLES
  \* @type: Int;
  s1,
  \* @type: Int;
  l1,
  \* @type: Int;
  s2,
  \* @type: Int;
  l2
U32(x) == x % 4294967296                                   \* the unsigned reading of a 32-bit pattern
S32(u) == IF u >= 2147483648 THEN u - 4294967296 ELSE u     \* and back
Pack(s, l) == U32(s) + U32(l) * 4294967296
Lo(w) == S32(w % 4294967296)
Hi(w) == S32(w \div 4294967296)
In32(x) == x \in -2147483648..2147483647
Init == In32(s1) /\ In32(l1) /\ In32(s2) /\ In32(l2)
Next == UNCHANGED <<s1, l1, s2, l2>>
WordsArePairs ==
  /\ Lo(Pack(s1, l1)) = s1 /\ Hi(Pack(s1, l1)) = l1                        \* unpacking inverts packing
  /\ (Pack(s1, l1) = Pack(s2, l2)) <=> (s1 = s2 /\ l1 = l2)                 \* words are equal exactly when the pairs are
  /\ Pack(s1, l1) \in 0..18446744073709551615                               \* and fit an unsigned 64-bit word
=============================================================================
