---------------------------- MODULE ShapeMech ----------------------------
(***************************************************************************)
(* LEVEL M of column selection and flat-index construction, shaped like   *)
(* raggedshape.py, checked against level A (PySeq.SliceIdx = Python's     *)
(* slice.indices + range):                                                 *)
(*   View == [start, len, step]  one row of a RaggedView2: the row's      *)
(*           cells are buffer positions start, start+step, ...            *)
(*   ColSlice(v, a, b, s)   RaggedView2.col_slice (step > 0:              *)
(*           _pos_col_slice; step < 0: clamped start + _calculate_lengths *)
(*           incl. the `lengths == 0` mask added by fix 24fbb47)          *)
(*   ColInt(v, j)           the integer branch (fix fa67f1e: scaled by     *)
(*           the view's own step)                                          *)
(*   BuildIndices(views)    build_indices: cumulative jumps, skipping     *)
(*           empty rows                                                    *)
(* Lemmas (INVARIANTs of MC_ShapeMech):                                    *)
(*   ComposeOK  slicing a (possibly strided / reversed) view equals the   *)
(*              composition of the two Python slices on the parent row    *)
(*   IntOK      an in-range integer column of a view addresses that cell  *)
(*   BuildOK    the flat indices are the rows' positions, concatenated    *)
(***************************************************************************)
EXTENDS PySeq, TLC
Positions(v) == [i \in 1..v.len |-> v.start + (i - 1) * v.step]
FreshRow(off, n) == [start |-> off, len |-> n, step |-> 1]
PosColSlice(v, a, b, s) ==
  LET start == IF a = NONE THEN 0 ELSE IF a >= 0 THEN Mn(a, v.len) ELSE Mx(v.len + a, 0)
      stop == IF b = NONE THEN v.len ELSE IF b < 0 THEN Mx(v.len + b, 0) ELSE Mn(v.len, b)
  IN [start |-> v.start + v.step * start, len |-> Mx(0, (stop - start + (s - 1)) \div s), step |-> v.step * s]
CalcLen(len, a, b, s) ==        \* _calculate_lengths for step < 0
  LET start0 == IF a = NONE THEN len - 1 ELSE IF a < 0 THEN len + a ELSE a
      stop0 == IF b = NONE THEN -1 ELSE IF b < 0 THEN len + b ELSE b
      mask == \/ Sign(stop0 - start0) # Sign(s)
              \/ (start0 < 0 /\ s < 0) \/ (start0 >= len /\ s > 0)
              \/ (stop0 <= 0 /\ s > 0) \/ (stop0 >= len /\ s < 0)
              \/ len = 0                                       \* fix 24fbb47: an empty row stays empty
      start1 == Mx(Mn(start0, len - 1), 0)
      stop1 == Mx(Mn(stop0, len - 1), -1)
  IN IF mask THEN 0 ELSE (Abs(stop1 - start1) - 1) \div Abs(s) + 1
NegColSlice(v, a, b, s) ==
  LET cs0 == IF a = NONE THEN v.len - 1 ELSE IF a < 0 THEN v.len + a ELSE a
      cs == Mx(Mn(v.len - 1, cs0), 0)
  IN [start |-> v.start + v.step * cs, len |-> CalcLen(v.len, a, b, s), step |-> s * v.step]
ColSlice(v, a, b, s0) == LET s == IF s0 = NONE THEN 1 ELSE s0 IN IF s > 0 THEN PosColSlice(v, a, b, s) ELSE NegColSlice(v, a, b, s)
ColInt(v, j) == [start |-> IF j >= 0 THEN v.start + j * v.step ELSE v.start + (v.len + j) * v.step, len |-> 1, step |-> 1]
\* build_indices(view, to_shape, step): rows are views with a common step
RECURSIVE CumSum(_)
CumSum(q) == IF q = <<>> THEN <<>> ELSE LET p == CumSum(SubSeq(q, 1, Len(q) - 1)) IN Append(p, (IF p = <<>> THEN 0 ELSE p[Len(p)]) + q[Len(q)])
BuildIndices(views, step) ==
  LET lens == [r \in DOMAIN views |-> views[r].len]
      size == Total(lens)
      ne == SelectSeq(Range(Len(views)), LAMBDA r : lens[r + 1] # 0)                     \* 0-based indices of the non-empty rows
      tstart == Starts(lens)
      End(r) == views[r].start + (views[r].len - 1) * step + 1
      jumpAt(p) == \* value of index_builder at 0-based position p
         IF ne # <<>> /\ p = 0 THEN views[ne[1] + 1].start
         ELSE IF \E k \in 2..Len(ne) : tstart[ne[k] + 1] = p
              THEN LET k == CHOOSE k \in 2..Len(ne) : tstart[ne[k] + 1] = p IN views[ne[k] + 1].start - End(ne[k - 1] + 1) + 1
              ELSE step
  IN IF size = 0 THEN <<>> ELSE SubSeq(CumSum([p \in 1..(size + 1) |-> jumpAt(p - 1)]), 1, size)
=============================================================================
