---------------------------- MODULE HiBitsApa ----------------------------
(* Unbounded lemma (Apalache, SMT over Int) behind the "high-bits" realisation of the conformance harness (DESIGN 11.7):
   an int16 / uint16 case is executed in int64 / uint64 (int32 / uint32) with every value multiplied by 2^S, S = 48 (16).
   For the operations the realisation is used for, two's-complement arithmetic on the top 16 bits of a (16+S)-bit word IS
   16-bit arithmetic:  Wrap_{16+S}(a*2^S (+|-) b*2^S) = Wrap_16(a (+|-) b) * 2^S,  order and equality are preserved, negation
   commutes with the scaling, and scaled values are representable.  a and b range over everything a 16-bit dtype can hold
   (signed and unsigned readings).  The two scales are written with literal constants to keep the arithmetic linear. *)
EXTENDS Integers
VARIABLES
  \* @type: Int;
  a,
  \* @type: Int;
  b
\* two's-complement wrap of x into a word of PW = 2^n values: signed and unsigned readings
WrapS(PW, x) == ((x + PW \div 2) % PW) - PW \div 2
WrapU(PW, x) == x % PW
Init == a \in -32768..65535 /\ b \in -32768..65535
Next == UNCHANGED <<a, b>>
InS(x) == x \in -32768..32767
InU(x) == x \in 0..65535
\* SC = 2^S, PW = 2^(16+S)
Signed(SC, PW) == (InS(a) /\ InS(b)) =>
   /\ WrapS(PW, a * SC + b * SC) = WrapS(65536, a + b) * SC
   /\ WrapS(PW, a * SC - b * SC) = WrapS(65536, a - b) * SC
   /\ WrapS(PW, -(a * SC)) = WrapS(65536, -a) * SC
   /\ ((a * SC < b * SC) <=> (a < b)) /\ ((a * SC = b * SC) <=> (a = b))
   /\ InS(WrapS(65536, a + b)) /\ WrapS(PW, a * SC) = a * SC
Unsigned(SC, PW) == (InU(a) /\ InU(b)) =>
   /\ WrapU(PW, a * SC + b * SC) = WrapU(65536, a + b) * SC
   /\ WrapU(PW, a * SC - b * SC) = WrapU(65536, a - b) * SC
   /\ ((a * SC < b * SC) <=> (a < b)) /\ ((a * SC = b * SC) <=> (a = b))
   /\ WrapU(PW, a * SC) = a * SC
Iso == /\ Signed(65536, 4294967296) /\ Unsigned(65536, 4294967296)                                   \* S = 16: int32 / uint32
       /\ Signed(281474976710656, 18446744073709551616) /\ Unsigned(281474976710656, 18446744073709551616)   \* S = 48: int64 / uint64
=============================================================================
