---------------------------- MODULE ColSliceApa ----------------------------
(* Unbounded version (Apalache, SMT over Int) of ShapeMech!SingleOK: for EVERY row length >= 0, EVERY integer start / stop (or None),
   steps +-1..3, RaggedView2.col_slice on a fresh row yields the same number of cells as Python's slice.indices and, when non-empty,
   the same first cell.  Steps are enumerated, not symbolic, to keep the arithmetic linear.  Includes the `len = 0` mask of fix 24fbb47:
   without it Apalache returns the counterexample len = 0, start = 0, stop = -6, step = -3 (DESIGN 2.1). *)
EXTENDS Integers
VARIABLES
  \* @type: Int;
  len,
  \* @type: Int;
  a,
  \* @type: Int;
  b,
  \* @type: Int;
  s,
  \* @type: Bool;
  an,
  \* @type: Bool;
  bn
Mn(x,y) == IF x < y THEN x ELSE y
Mx(x,y) == IF x > y THEN x ELSE y
Sign(x) == IF x > 0 THEN 1 ELSE IF x < 0 THEN -1 ELSE 0
Abs(x) == IF x < 0 THEN -x ELSE x
\* an/bn: start/stop is None
PyStart == LET lo == IF s > 0 THEN 0 ELSE -1  hi == IF s > 0 THEN len ELSE len - 1 IN
   IF an THEN (IF s > 0 THEN lo ELSE hi) ELSE IF a < 0 THEN Mx(a + len, lo) ELSE Mn(a, hi)
PyStop == LET lo == IF s > 0 THEN 0 ELSE -1  hi == IF s > 0 THEN len ELSE len - 1 IN
   IF bn THEN (IF s > 0 THEN hi ELSE lo) ELSE IF b < 0 THEN Mx(b + len, lo) ELSE Mn(b, hi)
PyN == IF s > 0 THEN (IF PyStop > PyStart THEN (PyStop - PyStart - 1) \div s + 1 ELSE 0)
                ELSE (IF PyStop < PyStart THEN (PyStart - PyStop - 1) \div (-s) + 1 ELSE 0)
PosStart == IF an THEN 0 ELSE IF a >= 0 THEN Mn(a, len) ELSE Mx(len + a, 0)
PosStop == IF bn THEN len ELSE IF b < 0 THEN Mx(len + b, 0) ELSE Mn(len, b)
PosN == Mx(0, (PosStop - PosStart + (s-1)) \div s)
NegOff == LET cs0 == IF an THEN len - 1 ELSE IF a < 0 THEN len + a ELSE a IN Mx(Mn(len-1, cs0), 0)
NegN == LET start0 == IF an THEN len-1 ELSE IF a < 0 THEN len + a ELSE a
      stop0 == IF bn THEN -1 ELSE IF b < 0 THEN len + b ELSE b
      mask == \/ Sign(stop0 - start0) # Sign(s)
              \/ (start0 < 0 /\ s < 0)
              \/ (start0 >= len /\ s > 0)
              \/ (stop0 <= 0 /\ s > 0)
              \/ (stop0 >= len /\ s < 0)
              \/ len = 0
      start1 == Mx(Mn(start0, len-1), 0)
      stop1 == Mx(Mn(stop0, len-1), -1)
      L == stop1 - start1
  IN IF mask THEN 0 ELSE (Abs(L)-1) \div Abs(s) + 1
ImplN == IF s > 0 THEN PosN ELSE NegN
ImplOff == IF s > 0 THEN PosStart ELSE NegOff
Init == len \in Nat /\ a \in Int /\ b \in Int /\ s \in {-3,-2,-1,1,2,3} /\ an \in BOOLEAN /\ bn \in BOOLEAN
Next == UNCHANGED <<len,a,b,s,an,bn>>
Agree == ImplN = PyN /\ (PyN > 0 => ImplOff = PyStart)
=============================================================================
