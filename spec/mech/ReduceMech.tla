---------------------------- MODULE ReduceMech ----------------------------
(***************************************************************************)
(* LEVEL M of RaggedArray._reduce (numpy reduceat + trailing-empty-row    *)
(* trimming + identity patch-up), RaggedShape._raw_broadcast (XOR scatter *)
(* at row ends and starts + prefix-XOR), cumsum-minus-offsets and the     *)
(* invertible accumulate (_row_accumulate, with the clamp of fix 007f82d),*)
(* each checked against its level-A meaning over every shape incl. empty  *)
(* rows first, last, consecutive, all rows empty.  Values are small        *)
(* non-negative integers (bit patterns).                                   *)
(***************************************************************************)
EXTENDS PySeq, Bitwise, TLC
CONSTANTS MaxRows, MaxLen
NoId == 999
Op(f, a, b) == CASE f = "add" -> a + b [] f = "mul" -> a * b [] f = "and" -> a & b [] f = "or" -> a | b
                 [] f = "xor" -> a ^^ b [] f = "max" -> Mx(a, b) [] f = "min" -> Mn(a, b) [] f = "sub" -> a - b
Ident(f) == CASE f = "add" -> 0 [] f = "mul" -> 1 [] f = "and" -> 255 [] f = "or" -> 0 [] f = "xor" -> 0 [] OTHER -> NoId
RECURSIVE Fold(_, _, _, _)
Fold(f, data, lo, hi) == IF hi = lo + 1 THEN data[lo + 1] ELSE Op(f, Fold(f, data, lo, hi - 1), data[hi])   \* data[lo:hi], hi > lo
\* ---- level A
AbsReduce(f, data, lens) == [r \in DOMAIN lens |-> IF lens[r] = 0 THEN Ident(f) ELSE Fold(f, data, Starts(lens)[r], Ends(lens)[r])]
RECURSIVE FlatRep(_, _, _)
FlatRep(vals, lens, r) == IF r > Len(lens) THEN <<>> ELSE [c \in 1..lens[r] |-> vals[r]] \o FlatRep(vals, lens, r + 1)
AbsAcc(f, data, lens) == FlatSeq([r \in DOMAIN lens |-> [c \in 1..lens[r] |-> Fold(f, data, Starts(lens)[r], Starts(lens)[r] + c)]])
\* ---- numpy ufunc.reduceat(data, idx): all idx < Len(data), else IndexError
ReduceAt(f, data, idx) == [i \in DOMAIN idx |->
     LET lo == idx[i]  hi == IF i < Len(idx) THEN idx[i + 1] ELSE Len(data) IN IF hi > lo THEN Fold(f, data, lo, hi) ELSE data[lo + 1]]
ReduceAtOK(data, idx) == \A i \in DOMAIN idx : idx[i] < Len(data)
\* ---- level M: _reduce
MechReduce(f, data, lens) ==
  LET n == Len(lens)  st == Starts(lens) IN
  IF Total(lens) = 0 THEN [r \in 1..n |-> Ident(f)]
  ELSE LET raw == IF lens[n] = 0
                  THEN LET k == SearchLeft(st, st[n])  head == ReduceAt(f, data, SubSeq(st, 1, k)) IN
                       [r \in 1..n |-> IF r <= k THEN head[r] ELSE Ident(f)]
                  ELSE ReduceAt(f, data, st)
       IN IF Ident(f) # NoId THEN [r \in 1..n |-> IF lens[r] = 0 THEN Ident(f) ELSE raw[r]] ELSE raw
MechReduceDefined(data, lens) ==
  LET n == Len(lens)  st == Starts(lens) IN
  Total(lens) = 0 \/ (IF lens[n] = 0 THEN ReduceAtOK(data, SubSeq(st, 1, SearchLeft(st, st[n]))) ELSE ReduceAtOK(data, st))
\* ---- level M: _raw_broadcast.  a[idx] ^= v with repeated idx: the LAST assignment wins
LastWins(base, idx, vals) == [p \in DOMAIN base |->
     LET hits == {k \in DOMAIN idx : idx[k] + 1 = p} IN
     IF hits = {} THEN base[p] ELSE LET k == CHOOSE k \in hits : \A j \in hits : j <= k IN base[p] ^^ vals[k]]
RECURSIVE PrefixFold(_, _)
PrefixFold(f, q) == IF q = <<>> THEN <<>> ELSE
     LET p == PrefixFold(f, SubSeq(q, 1, Len(q) - 1)) IN Append(p, IF p = <<>> THEN q[Len(q)] ELSE Op(f, p[Len(p)], q[Len(q)]))
MechBroadcast(vals, lens) ==
  LET sz == Total(lens)
      b1 == LastWins([p \in 1..sz + 1 |-> 0], Rev(Ends(lens)), Rev(vals))
      b2 == [b1 EXCEPT ![1] = 0]
      b3 == LastWins(b2, Starts(lens), vals)
  IN PrefixFold("xor", SubSeq(b3, 1, sz))
\* ---- level M: _row_accumulate (add: offsets = first - cm[first]; result = cm + offsets) with clamped row starts
MechAccAdd(data, lens) ==
  LET sz == Total(lens)  cm == PrefixFold("add", data) IN
  IF sz = 0 THEN <<>>
  ELSE LET rs == [r \in DOMAIN lens |-> Mn(Starts(lens)[r], sz - 1)]
           off == [r \in DOMAIN lens |-> data[rs[r] + 1] - cm[rs[r] + 1]]
       IN [p \in 1..sz |-> cm[p] + FlatRep(off, lens, 1)[p]]
\* ---- level M: cumsum = cumsum(0 ++ data)[1:] - cumsum(0 ++ data)[starts]
MechCumsum(data, lens) ==
  LET cm == <<0>> \o PrefixFold("add", data) IN
  [p \in 1..Total(lens) |-> cm[p + 1] - FlatRep([r \in DOMAIN lens |-> cm[Starts(lens)[r] + 1]], lens, 1)[p]]

LenVecs == UNION {[1..n -> 0..MaxLen] : n \in 0..MaxRows}
Funcs == {"add", "mul", "and", "or", "xor", "max", "min"}
Pal == <<3, 1, 2, 0, 7, 5, 6, 4, 9, 8, 11, 13, 12, 10, 15, 14, 17, 16, 19, 18>>
VARIABLES lens, f
Init == lens \in LenVecs /\ f \in Funcs
Next == UNCHANGED <<lens, f>>
Data == [p \in 1..Total(lens) |-> Pal[p]]
Vals == [r \in DOMAIN lens |-> Pal[r] + 20]
ReduceOK == MechReduceDefined(Data, lens) =>
              \A r \in DOMAIN lens : (lens[r] > 0 \/ Ident(f) # NoId) => MechReduce(f, Data, lens)[r] = AbsReduce(f, Data, lens)[r]
ReduceNeverFails == Ident(f) # NoId => MechReduceDefined(Data, lens)
BroadcastOK == MechBroadcast(Vals, lens) = FlatRep(Vals, lens, 1)
AccumulateOK == MechAccAdd(Data, lens) = AbsAcc("add", Data, lens)
CumsumOK == MechCumsum(Data, lens) = AbsAcc("add", Data, lens)
=============================================================================
