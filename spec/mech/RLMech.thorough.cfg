CONSTANTS MaxN = 5
SPECIFICATION Spec
INVARIANT RoundTrip
INVARIANT SliceOK
INVARIANT MergeOK
CHECK_DEADLOCK FALSE
