CONSTANTS MaxRows = 4 MaxLen = 2
INIT Init
NEXT Next
INVARIANT ReduceOK
INVARIANT ReduceNeverFails
INVARIANT BroadcastOK
INVARIANT AccumulateOK
INVARIANT CumsumOK
CHECK_DEADLOCK FALSE
