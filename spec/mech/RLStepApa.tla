---------------------------- MODULE RLStepApa ----------------------------
(* Unbounded lemma (Apalache, SMT over Int) behind RunLengthArray._step_subset: taking every s-th element (positions 0, s, 2s, ...)
   of a sequence maps a run boundary e to c = (e + s - 1) div s, because position k*s lies before e exactly when k < c.
   Strides are enumerated (1..5) to keep the arithmetic linear; e and k range over all naturals. *)
EXTENDS Integers
VARIABLES
  \* @type: Int;
  e,
  \* @type: Int;
  s,
  \* @type: Int;
  k
Init == e \in Nat /\ k \in Nat /\ s \in {1, 2, 3, 4, 5}
Next == UNCHANGED <<e, s, k>>
C == (e + s - 1) \div s
Agree == (k * s < e) <=> (k < C)
=============================================================================
