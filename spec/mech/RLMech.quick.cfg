CONSTANTS MaxN = 4
SPECIFICATION Spec
INVARIANT RoundTrip
INVARIANT SliceOK
INVARIANT MergeOK
CHECK_DEADLOCK FALSE
