---------------------------- MODULE RLMech ----------------------------
(***************************************************************************)
(* LEVEL M of RunLengthArray, shaped like runlengtharray.py: the           *)
(* neighbour-inequality encoder, searchsorted position lookup,             *)
(* _get_slice (negative-bound normalisation + the clamp of fix 31bac59),   *)
(* _start_to_end, _step_subset (reverse, (i+step-1)//step, remove empty,   *)
(* join runs) and the binary boundary merge (_apply_binary_func: stable    *)
(* sort of the concatenated boundaries, per-side value lookup, remove      *)
(* empty, join).  Checked against the dense-sequence semantics (level A)   *)
(* for EVERY sequence up to MaxN over 3 values, every slice with bounds    *)
(* +-(MaxN+2) and steps +-1..3, every pair of equally long operands.       *)
(***************************************************************************)
EXTENDS PySeq, SequencesExt, TLC
CONSTANTS MaxN
Vals == {0, 1, 2}
Encode(a) == LET n == Len(a)
                 st == SelectSeq([i \in 1..n |-> i - 1], LAMBDA p : p = 0 \/ a[p + 1] # a[p])
             IN <<Append(st, n), [k \in DOMAIN st |-> a[st[k] + 1]]>>
Canonical(e) == /\ e[1][1] = 0 /\ Len(e[1]) = Len(e[2]) + 1 /\ \A i \in 1..Len(e[1]) - 1 : e[1][i] < e[1][i + 1]
NoAdjEq(e) == \A i \in 1..Len(e[2]) - 1 : e[2][i] # e[2][i + 1]
Size(e) == e[1][Len(e[1])]
At(e, p) == e[2][SearchRight(e[1], p)]                       \* values[searchsorted(events, p, "right") - 1]
Decode(e) == [p \in 1..Size(e) |-> At(e, p - 1)]
RemoveEmpty(ev, va) == LET keep == {i \in DOMAIN ev : ~(i < Len(ev) /\ ev[i] = ev[i + 1])}
                           idx == SetToSortSeq(keep, <)
                           vk == SetToSortSeq({i \in keep : i <= Len(va)}, <) IN
                       <<[k \in DOMAIN idx |-> ev[idx[k]]], [k \in DOMAIN vk |-> va[vk[k]]]>>
JoinRuns(ev, va) == LET drop == {i \in 2..Len(va) : va[i] = va[i - 1]}
                        ke == SetToSortSeq((DOMAIN ev) \ drop, <)
                        kv == SetToSortSeq((DOMAIN va) \ drop, <) IN
                    <<[k \in DOMAIN ke |-> ev[ke[k]]], [k \in DOMAIN kv |-> va[kv[k]]]>>
StartToEnd(e, start, end) ==
  LET si == SearchRight(e[1], start)  ei == SearchLeft(e[1], end)
      va == SubSeq(e[2], si, ei)
      ev0 == [k \in 1..(ei - si + 2) |-> e[1][si + k - 1] - start]
  IN <<[ev0 EXCEPT ![1] = 0, ![Len(ev0)] = end - start], va>>
StepSubset(e, step) ==
  LET ss == Abs(step)
      ev1 == IF step < 0 THEN [k \in DOMAIN e[1] |-> Size(e) - e[1][Len(e[1]) + 1 - k]] ELSE e[1]
      va1 == IF step < 0 THEN Reverse(e[2]) ELSE e[2]
      ev2 == [k \in DOMAIN ev1 |-> (ev1[k] + ss - 1) \div ss]
      r == RemoveEmpty(ev2, va1)
  IN JoinRuns(r[1], r[2])
MechSlice(e, a, b, s0) ==
  LET n == Size(e)  step == IF s0 = NONE THEN 1 ELSE s0  rev == step < 0
      start0 == IF a # NONE THEN (IF a < 0 THEN n + a ELSE a) ELSE (IF rev THEN n - 1 ELSE 0)
      end0 == IF b # NONE THEN (IF b < 0 THEN n + b ELSE b) ELSE (IF rev THEN -1 ELSE n)
      lo == IF rev THEN -1 ELSE 0   hi == IF rev THEN n - 1 ELSE n            \* fix 31bac59: clamp as slice.indices does
      start1 == Mn(Mx(start0, lo), hi)   end1 == Mn(Mx(end0, lo), hi)
      start == IF rev THEN end1 + 1 ELSE start1
      end == IF rev THEN start1 + 1 ELSE end1
  IN IF start >= end THEN <<<<0>>, <<>>>>
     ELSE LET sub == StartToEnd(e, start, end) IN IF step # 1 THEN StepSubset(sub, step) ELSE sub
Merge(x, y) ==       \* _apply_binary_func for add
  LET ev == SubSeq(x[1], 1, Len(x[1]) - 1) \o SubSeq(y[1], 2, Len(y[1]))
      nvo == [k \in 1..Len(y[2]) - 1 |-> x[2][SearchRight(x[1], y[1][k + 1])] + y[2][k + 1]]
      nvf == [k \in 1..Len(x[2]) - 1 |-> x[2][k + 1] + y[2][SearchRight(y[1], x[1][k + 1])]]
      va == <<x[2][1] + y[2][1]>> \o nvf \o nvo
      ord == SortSeq([k \in DOMAIN ev |-> k], LAMBDA i, j : ev[i] < ev[j] \/ (ev[i] = ev[j] /\ i < j))
      evs == [k \in DOMAIN ord |-> ev[ord[k]]]
      vas == [k \in 1..Len(ord) - 1 |-> va[ord[k]]]
      r == RemoveEmpty(evs, vas)
  IN JoinRuns(r[1], r[2])
Seqs == UNION {[1..n -> Vals] : n \in 1..MaxN}
Bnd == (-(MaxN + 2)..(MaxN + 2)) \cup {NONE}
VARIABLES a, b, phase, sl
vars == <<a, b, phase, sl>>
Init == a \in Seqs /\ b = <<>> /\ phase = 0 /\ sl = <<NONE, NONE, NONE>>
\* enumeration is spread over Next so that TLC's workers share it (rule 9 of DESIGN 4.4)
Next == /\ phase = 0
        /\ \/ \E q \in {q \in Seqs : Len(q) = Len(a)} : b' = q /\ phase' = 1 /\ UNCHANGED <<a, sl>>
           \/ \E lo \in Bnd, hi \in Bnd, st \in {NONE, -3, -2, -1, 1, 2, 3} : sl' = <<lo, hi, st>> /\ phase' = 2 /\ UNCHANGED <<a, b>>
Spec == Init /\ [][Next]_vars
RoundTrip == Decode(Encode(a)) = a /\ Canonical(Encode(a)) /\ NoAdjEq(Encode(a))
SliceOK == phase = 2 =>
   LET m == MechSlice(Encode(a), sl[1], sl[2], sl[3])  exp == Take(a, SliceIdx(Len(a), sl[1], sl[2], sl[3])) IN
     /\ (IF Len(m[2]) = 0 THEN <<>> ELSE Decode(m)) = exp
     /\ (Len(m[2]) > 0 => Canonical(m))
     /\ ((sl[3] # NONE /\ sl[3] # 1 /\ Len(m[2]) > 0) => NoAdjEq(m))
MergeOK == phase = 1 => LET m == Merge(Encode(a), Encode(b)) IN
   Decode(m) = [i \in DOMAIN a |-> a[i] + b[i]] /\ Canonical(m) /\ NoAdjEq(m)
=======================================================================
