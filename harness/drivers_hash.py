"""Seeded driver for the HashTable / Counter / HashSet machine: key dtypes int8..uint64, keys up to 2**62 (as limb
tuples), explicit moduli from 1 upward and the default, 15-40 step histories with heavy repetition in batches."""
import random
from . import exec_hash
from .enc import limbs

KDTS = ["i1", "i2", "i4", "i8", "i8", "u1", "u2", "u4", "u8"]


def key_universe(r, kdt, big):
    bits = int(kdt[1:]) * 8
    lo, hi = (0, 2 ** bits - 1) if kdt[0] == "u" else (-(2 ** (bits - 1)), 2 ** (bits - 1) - 1)
    if big and bits == 64:
        top = 2 ** 62
        base = r.choice([top - 7, 2 ** 61 + 5, 2 ** 53 + 1, 2 ** 40])
        cand = {base + r.randint(-6, 6) for _ in range(14)} | {r.randint(0, 50) for _ in range(4)}
        if kdt[0] == "i":
            cand |= {-base + r.randint(0, 5) for _ in range(4)}
        return sorted(cand)
    span = min(hi - lo, 60)
    start = r.choice([lo, max(lo, -20), max(lo, 0), hi - span])
    return sorted({r.randint(start, start + span) for _ in range(20)})


def gen_program(r, prop):
    kdt = r.choice(KDTS)
    big = kdt in ("i8", "u8") and r.random() < 0.35
    wide = big
    univ = key_universe(r, kdt, big)
    n = r.randint(1, min(r.choice([8, 8, 14]), len(univ) - 2))
    keys = r.sample(univ, n)
    absent = [k for k in univ if k not in keys]
    absent_in = list(absent)                       # absent and representable in the key dtype (count() batches)
    bits = int(kdt[1:]) * 8
    if bits < 64 and not big:                      # absent values that alias a key modulo 2**bits must still be absent
        absent = absent + [k + (1 << bits) for k in keys[:3]] + [k - (1 << bits) for k in keys[:2]]
    # TLC's integers are 32-bit: any table whose keys or queries may leave +-2**31 is logged with limb-encoded keys throughout
    wide = wide or any(abs(v) >= 2 ** 31 - 1 for v in list(univ) + absent)
    enc = (lambda k: limbs(k)) if wide else (lambda k: k)
    kind = "counter" if prop == "C12" else r.choice(["table", "table", "table", "counter", "set"])
    opts = {"kdt": kdt, "vdt": r.choice(["i8", "i8", "f8"]), "query": r.choice(["list", "array64"] if bits < 64 else ["list", "array"]), "batch": r.choice(["list", "array"]),
            "npkey": r.random() < 0.3, "vecset": r.random() < 0.5, "omit_zero": r.random() < 0.5}
    # the uint64 / signed-query weakness (KF-C11-2) is exercised only in its listed form: default modulus, python-list queries
    default_mod = r.random() < 0.4
    if kdt == "u8":
        if r.random() < 0.25:
            default_mod, opts["query"], opts["batch"] = True, "list", "array"
            pass
        else:
            opts["query"], opts["batch"] = "array", "array"
            opts["npkey"] = True
    mod = 0 if default_mod else r.choice([1, 1, 2, 3, 5, 7, n, 2 * n + 1, 97])
    if kdt in ("i1", "u1") and mod > 100:
        mod = 7
    iv = r.choice(["zero", "zero", "scalar", "perkey"])
    vals = ["scalar", 0] if iv == "zero" else ["scalar", r.randint(1, 9)] if iv == "scalar" else ["array", [r.randint(-5, 20) for _ in keys]]
    if kind == "set":
        vals = ["scalar", 0]
    # the specification carries its mechanism level (buckets) along only for plain integer keys and an explicit modulus
    steps = [["new", [enc(k) for k in keys], vals, mod if mod else 2 * n - 1, kind, "limb" if wide else "int"]]
    opts["default_mod"] = default_mod
    objs = []
    rec = []
    res = exec_hash.step(objs, steps[0], opts)
    rec.append({"res": res, "obs": [exec_hash.shadow(t) for t in objs]})
    if res[0] != "new":
        return steps, rec, opts

    def some_keys(kmin=1, kmax=5, absent_p=0.15):
        q = []
        for _ in range(r.randint(kmin, kmax)):
            q.append(r.choice(absent) if (absent and r.random() < absent_p) else r.choice(keys))
        return [enc(k) for k in q]

    for _ in range(r.randint(6, 30)):
        t = r.randint(1, len(objs))
        tk = objs[t - 1].kind
        c = r.random()
        if tk == "set":
            st = r.choice([["contains", t, some_keys(1, 6, 0.4)], ["containsone", t, enc(r.choice(keys + absent_in[:3]))]])
            if r.random() < 0.08:
                v = r.choice(absent_in) if (absent_in and r.random() < 0.7) else r.choice(keys)
                st = ["containsrep", t, enc(v), r.choice([1000, 100000, 100001, 150000]), some_keys(1, 6, 0.4), r.choice(["head", "tail"])]
        elif tk == "counter" and c < 0.55:
            m = r.random()
            if m < 0.1:
                b = []
            elif m < 0.25:
                b = [enc(r.choice(absent_in)) for _ in range(r.randint(1, 6))] if absent_in else []
            elif m < 0.5:
                k0 = r.choice(keys)
                b = [enc(k0)] * r.randint(2, 30)
            else:
                b = [enc(r.choice(absent_in)) if (absent_in and r.random() < 0.3) else enc(r.choice(keys)) for _ in range(r.randint(1, 12))]
            st = ["count", t, b]
            if r.random() < 0.04:                   # now and then a really large batch (internal chunking, int32 counts ...)
                v = r.choice(absent_in) if (absent_in and r.random() < 0.6) else r.choice(keys)
                st = ["countrep", t, enc(v), r.choice([1000, 70000, 100000, 100001, 150000, 270000]), b[:8], r.choice(["head", "head", "tail"])]
        elif c < 0.2:
            st = ["getvec", t, some_keys(1, 6, 0.12)]
        elif c < 0.3:
            st = ["get", t, enc(r.choice(keys))]
        elif c < 0.45:
            st = ["contains", t, some_keys(1, 6, 0.4)]
        elif c < 0.62:
            q = some_keys(1, 4, 0.0)
            if r.random() < 0.5:
                st = ["set", t, q, ["scalar", r.randint(-9, 99)]]
            else:
                seen = {}
                vv = []
                for k in q:
                    kk = tuple(k) if isinstance(k, list) else k
                    seen.setdefault(kk, r.randint(-9, 99))
                    vv.append(seen[kk])
                st = ["set", t, q, ["array", vv]]
        elif c < 0.68:
            st = ["fill", t, r.randint(-3, 9)]
        elif c < 0.70 and len(objs) < 5 and steps[0][4] != "set":
            st = list(steps[0]) + [1]          # a second table built from the very same caller arrays as table 1
        elif c < 0.76 and len(objs) < 5:
            st = [r.choice(["zeros_like", "ones_like"]), t]
        elif c < 0.84 and len(objs) < 5:
            st = ["add", t, r.randint(1, len(objs))]
        elif c < 0.9:
            st = ["eq", t, r.randint(1, len(objs))]
        else:
            st = [r.choice(["items", "to_dict"]), t]
        if st[0] in ("add", "eq") and objs[st[2] - 1].kind == "set":
            continue
        if st[0] == "new":
            res = exec_hash.step(objs, st, opts)
            steps.append(st)
            rec.append({"res": res, "obs": [exec_hash.shadow(x) for x in objs]})
            continue
        if kdt == "u8" and opts["query"] == "list" and st[0] in ("zeros_like", "ones_like", "add"):
            continue          # derived tables get a python-int modulus: the lossy float comparison path of KF-C11-1 is not exercised (see DESIGN 6)
        res = exec_hash.step(objs, st, opts)
        steps.append(st)
        rec.append({"res": res, "obs": [exec_hash.shadow(x) for x in objs]})
    return steps, rec, opts


def generate_and_run(seed, n, prop):
    r = random.Random(f"hash-{prop}-{seed}")
    out = []
    for i in range(n):
        steps, rec, opts = gen_program(r, prop)
        out.append({"id": i, "steps": steps, "rec": rec, "opts": opts})
    return out
