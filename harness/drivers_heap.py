"""Seeded driver for the heap machine: random straight-line programs over the RaggedArray API, executed on the real
library while they are generated (so that selectors can be valid for the handles that exist), with every live
handle observed by shadow read after every step."""
import random
from .common import NONE
from .props import HVIAS as RVIAS
from . import exec_heap
from .drivers_ragged import rnd_lens, rnd_slice

READ_KINDS = ["repr", "str", "iter", "tolist", "ravel", "sum", "nonzero", "ufunc", "colsum", "len", "shape", "size", "dtype", "lengths", "copy",
              "unique", "cumsum", "sort", "diff", "accumulate", "max", "mean", "argmax", "pad", "where", "concat", "colbroadcast", "zeros_like",
              "colvalues", "getrow", "getelem", "rowcol", "any", "rowmean", "pairs"]


def _lens(ob):
    return [len(r) for r in ob[1]]


def rnd_sel(r, lens, ragged_only=False):
    n = len(lens)
    mx = max(lens) if lens else 0
    k = r.choice(["slice", "slice", "slice", "list", "mask", "all", "int", "colslice", "colslice", "colslice", "both", "both", "colint", "elem"])
    if ragged_only and k in ("int", "colint", "elem"):
        k = "colslice"
    if k == "slice":
        return rnd_slice(r, n), ["none"]
    if k == "list":
        return ["list", [r.randint(-n, n - 1) for _ in range(r.randint(0, 4))] if n else []], ["none"]
    if k == "mask":
        return ["mask", [r.randint(0, 1) for _ in range(n)]], ["none"]
    if k == "all":
        return ["all"], r.choice([["none"], ["none"], rnd_slice(r, mx)])
    if k == "int":
        return ["int", r.randint(-n - 1, n)], r.choice([["none"], ["none"], rnd_slice(r, mx)])
    if k == "colslice":
        return ["slice", NONE, NONE, NONE], rnd_slice(r, mx)
    if k == "both":
        rs = r.choice([rnd_slice(r, n), ["mask", [r.randint(0, 1) for _ in range(n)]], ["list", [r.randint(-n, n - 1) for _ in range(r.randint(0, 3))] if n else []]])
        return rs, rnd_slice(r, mx)
    if k == "colint":
        return rnd_slice(r, n), ["int", r.randint(-mx - 1, mx)]
    return ["int", r.randint(-n - 1, n)], ["int", r.randint(-mx - 1, mx)]


def norepeat_rows(rs, n):
    if rs[0] == "list":
        q = [i % n for i in rs[1]] if n else []
        return len(set(q)) == len(q)
    return True


def sel_shape(lens, rs, cs):
    n = len(lens)
    if rs[0] == "slice":
        R = list(range(n))[slice(*[None if v == NONE else v for v in rs[1:4]])]
    elif rs[0] == "list":
        R = [i % n for i in rs[1]]
    elif rs[0] == "mask":
        R = [i for i, m in enumerate(rs[1]) if m]
    elif rs[0] == "all":
        R = list(range(n))
    else:
        return None
    if cs[0] in ("none", "all"):
        return [lens[i] for i in R]
    if cs[0] == "slice":
        sl = slice(*[None if v == NONE else v for v in cs[1:4]])
        return [len(range(lens[i])[sl]) for i in R]
    return None


def gen_program(r, maxsteps=9, maxh=6, read_bias=0.2, assign_bias=0.2):
    lens = rnd_lens(r, 5, 5)
    if r.random() < 0.01:                        # now and then more than 100 cells / more than 20 rows: other branches of repr / str
        lens = [r.randint(0, 7) for _ in range(r.randint(22, 30))] + [6] * 8
    k = 10
    rows = []
    flt = r.random() < 0.25                      # a float64 array: small dyadic values and now and then +inf
    if flt and r.random() < 0.5:
        lens = [max(l, 1) for l in lens] or [2, 1]   # no empty rows: the shortcuts for such shapes
    for l in lens:
        rows.append([([2 * (k + j) + 1, 2] if not (flt and r.random() < 0.08) else [1, 0]) if flt else k + j for j in range(l)])
        k += l
    steps = [["new", ["f8" if flt else "i8", rows]]]
    V = (lambda x: [x, 1]) if flt else (lambda x: x)
    opts = {"via0": r.choice(RVIAS), "spelling": r.choice(["plain", "plain", "tuple", "numpy", "numpy32", "pylist"])}
    objs = []
    rec = []
    res = exec_heap.step(objs, steps[0], opts)
    rec.append({"res": res, "obs": [exec_heap.shadow(x) for x in objs]})
    nsteps = r.randint(2, maxsteps)
    val = 100
    focus = None
    for _ in range(nsteps):
        obs = rec[-1]["obs"]
        live = [i for i, ob in enumerate(obs, 1) if ob[0] != "raised"]
        if not live:
            break
        h = r.choice(live)
        if focus in live and r.random() < 0.6:         # what was just looked at is what is used next
            h = focus
        focus = None
        hl = _lens(obs[h - 1])
        hdt = obs[h - 1][0]                           # values are written in the target's own dtype
        V = (lambda x: [x, 1]) if hdt[0] == "f" else (lambda x: x % 2) if hdt == "b1" else (lambda x: x)
        flt = hdt[0] == "f"
        c = r.random()
        if c < read_bias:
            st = ["read", h, r.choice(READ_KINDS)]
        elif c < read_bias + assign_bias and r.random() < 0.12:
            val += 1
            st = ["fill", h, V(val)]
        elif c < read_bias + assign_bias:
            rs, cs = rnd_sel(r, hl)
            if not norepeat_rows(rs, len(hl)):
                rs = ["all"]
            shp = sel_shape(hl, rs, cs)
            vk = r.choice(["scalar", "scalar", "ragged", "col"])
            val += 1
            if vk == "ragged" and shp is not None:
                v = ["ragged", [[V(val * 10 + j) for j in range(l)] for l in shp]]
                if r.random() < 0.15:
                    v = ["ragged", v[1] + [[V(1)]]]                  # wrong shape: refused
            elif vk == "col" and shp:
                v = ["col", [V(val * 10 + i) for i in range(len(shp))]]
                if flt and r.random() < 0.4:
                    v[1][r.randrange(len(shp))] = [1, 0]
            else:
                v = ["scalar", V(val)]
            st = ["assign", h, rs, cs, v]
        elif len(objs) >= maxh:
            rs, cs = rnd_sel(r, hl)
            st = ["select", h, ["int", r.randint(0, max(len(hl) - 1, 0))], cs if cs[0] != "int" else ["none"]] if r.random() < 0.5 else ["read", h, "tolist"]
        elif c < 0.82:
            rs, cs = rnd_sel(r, hl)
            st = ["select", h, rs, cs]
        elif c < 0.91:
            f = r.choice(["add_py", "add_self", "mul_py", "neg", "sub_h", "col", "col"] + (["col"] * 6 if flt else []))
            if f == "col" and not hl:
                f = "neg"
            if f == "col":
                col = [V(r.randint(-3, 9)) for _ in hl]
                if flt and r.random() < 0.5:
                    col[r.randrange(len(col))] = [1, 0]
                    if r.random() < 0.5:
                        col[0] = [r.choice([1, -1]), 0]
                opd = ["col", hdt if hdt != "b1" else "i8", col if hdt != "b1" else [r.randint(0, 3) for _ in hl]]
                if hdt[0] == "i" and r.random() < 0.3:                 # an integer array and a float column with an infinity
                    opd = ["col", "f8", [[1, 0] if i == 0 or r.random() < 0.2 else [r.randint(-3, 9), 1] for i in range(len(hl))]]
                st = ["ufunc", r.choice(["add", "maximum", "less"]), ["h", h], opd] if r.random() < 0.5 else ["ufunc", r.choice(["add", "subtract"]), opd, ["h", h]]
            elif f == "add_py":
                st = ["ufunc", "add", ["h", h], ["py", "pyint", r.randint(1, 3)]]
            elif f == "mul_py":
                st = ["ufunc", "multiply", ["py", "pyint", 2], ["h", h]]
            elif f == "neg":
                st = ["ufunc", "negative", ["h", h], ["none"]]
            elif f == "add_self":
                st = ["ufunc", "add", ["h", h], ["h", h]]
            else:
                g = r.choice(live)
                st = ["ufunc", "subtract", ["h", h], ["h", g]]
        else:
            name = r.choice(["cumsum", "sort", "diff", "concat", "concat", "concat1", "astype", "sum", "max", "argmax", "argmin", "mean", "min", "unique_obs", "unique_obs", "nonzero_obs", "nonzero_obs", "colsum_obs", "pad_obs"])   # no value-dependent shapes (unique): see RaggedHeap.tla
            if name == "concat":
                g = r.choice(live)
                ax = r.choice([0, 0, -1])
                if ax == -1 and (len(_lens(obs[g - 1])) != len(hl) or not hl):
                    ax = 0
                st = ["func", "concat", h, [g, ax]]
            elif name == "diff":
                st = ["func", "diff", h, r.randint(0, 2)]
            elif name == "cumsum" and flt:
                st = ["func", "sort", h, 0]          # cumsum is integer-only
            else:
                st = ["func", name, h, 0]
        if st[0] == "read" or (st[0] == "func" and st[1] in ("sum", "max", "min", "mean", "argmax", "argmin", "unique_obs", "nonzero_obs", "colsum_obs", "pad_obs")):
            focus = h
        res = exec_heap.step(objs, st, opts)
        steps.append(st)
        rec.append({"res": res, "obs": [exec_heap.shadow(x) for x in objs]})
    return steps, rec, opts


def generate_and_run(seed, n, prop):
    """returns list of programs {id, steps, rec, opts}"""
    r = random.Random(f"heap-{prop}-{seed}")
    rb, ab = (0.15, 0.15) if prop == "C06" else (0.35, 0.3)
    out = []
    for i in range(n):
        steps, rec, opts = gen_program(r, read_bias=rb, assign_bias=ab)
        out.append({"id": i, "steps": steps, "rec": rec, "opts": opts})
    return out
