"""Python rendering of spec/abs/Judge.tla, used when TLC generated the expectation and the harness
compares (binding A).  The two are kept line-for-line parallel; `./check selftest` cross-checks them."""
from .enc import kind


def _isf(dt):
    return kind(dt) == "f"


def _asq(dt, v):
    return list(v) if _isf(dt) else [v, 1]


def _norm(v):
    return [_norm(x) for x in v] if isinstance(v, (list, tuple)) else (int(v) if isinstance(v, bool) else v)


def num_eq(dte, ve, dto, vo):
    """negative zero: the specification produces it only by copying, never by arithmetic, so an expected +0 accepts either
    sign while an expected -0 demands -0"""
    ve, vo = _norm(ve), _norm(vo)
    if _isf(dte) == _isf(dto):
        return ve == vo or (ve == [0, 1] and vo == [0, -1])
    e, o = _asq(dte, ve), _asq(dto, vo)
    return e == o or (e == [0, 1] and o == [0, -1])


def seq_eq(dte, qe, dto, qo):
    return len(qe) == len(qo) and all(num_eq(dte, a, dto, b) for a, b in zip(qe, qo))


def shape_eq(re_, ro):
    return len(re_) == len(ro) and all(len(a) == len(b) for a, b in zip(re_, ro))


def rows_eq(dte, re_, dto, ro):
    return all(seq_eq(dte, a, dto, b) for a, b in zip(re_, ro))


def judge_value(exp, out, strict):
    te, to = exp[0], out[0]
    if te in ("ragged", "matrix", "array"):
        if to != te:
            return "kind"
        if strict and exp[1] != out[1]:
            return "dtype"
        if not shape_eq(exp[2], out[2]):
            return "shape"
        return "ok" if rows_eq(exp[1], exp[2], out[1], out[2]) else "value"
    if te == "ragged2":
        if to != te:
            return "kind"
        if strict and exp[1] != out[1]:
            return "dtype"
        if not shape_eq(exp[2], out[2]) or not shape_eq(exp[3], out[3]):
            return "shape"
        return "ok" if rows_eq(exp[1], exp[2], out[1], out[2]) and rows_eq("i8", exp[3], "i8", out[3]) else "value"
    if te in ("row", "flat", "col"):
        if to != te:
            return "kind"
        if strict and exp[1] != out[1]:
            return "dtype"
        if len(exp[2]) != len(out[2]):
            return "shape"
        return "ok" if seq_eq(exp[1], exp[2], out[1], out[2]) else "value"
    if te in ("partial", "pcol"):
        if to != ("flat" if te == "partial" else "col"):
            return "kind"
        if strict and exp[1] != out[1]:
            return "dtype"
        if len(exp[2]) != len(out[2]):
            return "shape" if all(m == 1 for m in exp[3]) else "unspec"
        return "ok" if all(m != 1 or num_eq(exp[1], a, out[1], b) for a, b, m in zip(exp[2], out[2], exp[3])) else "value"
    if te == "scalar":
        if to != te:
            return "kind"
        if strict and exp[1] != out[1]:
            return "dtype"
        return "ok" if num_eq(exp[1], exp[2], out[1], out[2]) else "value"
    if te == "shape":
        if to != "ragged":
            return "kind"
        if strict and exp[1] != out[1]:
            return "dtype"
        return "ok" if [len(r) for r in out[2]] == list(exp[2]) else "shape"
    if te == "int":
        return "kind" if to != te else "ok" if exp[1] == out[1] else "value"
    if te == "ints":
        return "kind" if to != te else "shape" if len(exp[1]) != len(out[1]) else "ok" if list(exp[1]) == list(out[1]) else "value"
    if te == "dtype":
        return "kind" if to != te else "ok" if exp[1] == out[1] else "dtype"
    if te == "bool":
        return "kind" if to != te else "ok" if _norm(exp[1]) == _norm(out[1]) else "value"
    if te == "pair":
        if to != te:
            return "kind"
        if len(exp[1]) != len(out[1]) or len(exp[2]) != len(out[2]):
            return "shape"
        return "ok" if list(exp[1]) == list(out[1]) and list(exp[2]) == list(out[2]) else "value"
    if te == "none":
        return "ok" if to == "none" else "kind"
    if te == "rlenc":
        if to != te:
            return "kind"
        if strict and exp[1] != out[1]:
            return "dtype"
        if exp[2] != out[2]:
            return "shape"
        return "ok" if _norm(exp) == _norm(out) else "value"
    if te in ("digits", "digit", "windows", "table", "entry", "entries", "matrix2"):      # structures of integers / digit tuples
        return "kind" if to != te else "ok" if _norm(exp) == _norm(out) else "value"
    return "kind"


# ---- run-length outcomes (mirror of JudgeRL / JudgeRLRows in spec/abs/RunLength.tla)
def _same_val(dt, x, y):
    if _isf(dt):
        x, y = _norm(x), _norm(y)
        return x != [0, 0] and y != [0, 0] and x == y
    return _norm(x) == _norm(y)


def canonical(ev, n):
    return len(ev) >= 1 and ev[0] == 0 and ev[-1] == n and all(a < b for a, b in zip(ev, ev[1:]))


def no_adj_eq(dt, vals):
    return all(not _same_val(dt, a, b) for a, b in zip(vals, vals[1:]))


def consistent(ev, vals, dense):
    if len(ev) != len(vals) + 1 or any(a > b for a, b in zip(ev, ev[1:])):
        return False
    dec = []
    for i, v in enumerate(vals):
        dec += [v] * (ev[i + 1] - ev[i])
    return _norm(dec) == _norm(dense)


def judge_rl(exp, out, strict):
    if out[0] != "rl":
        return "kind"
    if strict and exp[1] != out[1]:
        return "dtype"
    if len(exp[2]) != len(out[2]):
        return "shape"
    if not seq_eq(exp[1], exp[2], out[1], out[2]):
        return "value"
    if not consistent(out[3], out[4], out[2]):
        return "inconsistent-encoding"
    if not canonical(out[3], len(out[2])):
        return "not-canonical"
    if exp[3] and not no_adj_eq(out[1], out[4]):
        return "adjacent-equal-runs"
    return "ok"


def judge_rlrows(exp, out, strict):
    if out[0] != "rlrows":
        return "kind"
    if strict and exp[1] != out[1]:
        return "dtype"
    if not shape_eq(exp[2], out[2]):
        return "shape"
    if not rows_eq(exp[1], exp[2], out[1], out[2]):
        return "value"
    if any(not consistent(e, v, d) for e, v, d in zip(out[3], out[4], out[2])):
        return "inconsistent-encoding"
    if any(len(e) != len(v) + 1 for e, v in zip(out[3], out[4])):
        return "lock-step"
    return "ok"


def judge(exp, out, strict=False):
    te, to = exp[0], out[0]
    if te == "unspec":
        return "unspec"
    if te == "refused":
        return "ok" if to == "raised" else "not-refused"
    if to == "noreturn":
        return "noreturn"
    if to == "mutated":
        return "operand-modified"
    if te in ("rl", "rlrows"):
        if to == "raised":
            return "raised"
        return judge_rl(exp, out, strict) if te == "rl" else judge_rlrows(exp, out, strict)
    if to == "raised":
        if te in ("partial", "pcol") and not any(m == 1 for m in exp[3]):
            return "unspec"                      # nothing is claimed (no non-empty row): a refusal is as good as any answer
        return "raised"
    return judge_value(exp, out, strict)
