"""Regenerates /verif/MANIFEST.json from the table below (python -m harness.manifest)."""
import json, os
from .common import VERIF

TITLES = {l["id"]: l["title"] for l in map(json.loads, open(os.path.join(VERIF, "properties.jsonl")))}

TECH = "TLA+ level-A spec; TLC enumerates the bounded instance and its states are replayed into the code; seeded traces of the real code are validated by TLC (trace validation)"
NOTE = ("Trusted base: the level-A transcription of Python/numpy semantics (spec/abs/PySeq.tla, NpVal.tla; calibrated against CPython/numpy by "
        "./check selftest), TLC, the ~150-line projection of real objects to abstract values (harness/exec_*.py, enc.py). Small-scope: exhaustive only "
        "within the constants of spec/mc/*.cfg; beyond them sampled. TLC integers are 32-bit: 64-bit extremes are reached through the high-bits realisation "
        "(16-bit cases executed in the top 16 bits of the wide dtypes; lemma spec/mech/HiBitsApa.tla) and through 16-bit limbs for value-moving operations and "
        "totals (NpVal!WideSum); multiplicative 64-bit arithmetic is outside the modelled regime; floats are small dyadic rationals with infinities, NaN and "
        "negative zero; float16 results are claimed where float16 holds them exactly.")

# property -> (design section, level text)
_FN = ("Model checking of the level-A specification of this operation family over every shape up to the configured bounds x the argument grammar "
       "(TLC also checks the stated model-level lemmas on every state), with every enumerated state executed against the real code on fresh arrays "
       "and on pending views, plus TLC trace validation of seeded random cases (all dtypes, larger shapes, extremes). Right level because the property "
       "is a universally quantified functional equivalence with rich case analysis: exhaustive small scope plus an independent oracle (Python/numpy "
       "semantics transcribed into TLA+), not sampled assertions on hand-picked inputs.")
_SM = ("Model checking of an explicit state machine (spec/abs/RaggedHeap.tla): level A is a heap of array values with aliasing only through a[...] / a[()]; "
       "level M adds shared buffers, pending views and the internal Materialise step, and TLC checks that M refines A except on handles hit by the one named "
       "deviation (ghost variable stale), plus read-purity and assignment-frame action properties. Programs are behaviours: every reachable state of the bounded "
       "alphabet is replayed into the real code, and deeper random programs recorded from the real code are validated step by step by TLC (trace validation), "
       "observing every live handle after every step. Right level because the property quantifies over programs / histories and over every position of an "
       "inserted read - an interleaving quantifier that a state machine with Read as a free action expresses directly.")
_RL = ("Model checking of the level-A specification of run-length arrays: an encoding DENOTES a dense sequence, every operation is specified on the dense "
       "sequence (Python/numpy semantics), and the encoding promises (Consistent, Canonical, NoAdjEq where promised, lock-step) are predicates evaluated on the "
       "run boundaries / run values of every run-length object the library returns. TLC enumerates all dense sequences up to the bound over a small value set "
       "per dtype - i.e. every run layout and every relative alignment of two operands' boundaries - crossed with the argument grammar; every claimed state is "
       "executed against the real classes; seeded traces (longer arrays, all dtypes, NaN) are validated by TLC. Right level: a functional equivalence between "
       "an encoded and a dense computation with rich case analysis at run boundaries, exhaustively explorable at small scope.")
_HM = ("Model checking of an explicit state machine (spec/abs/HashTable.tla): level A is a dictionary over a fixed key set (keys opaque), level M the "
       "bucket layout, in-bucket offsets, the lazy scalar-or-array value state and the four branches of Counter.count; TLC checks that M denotes A after every "
       "step of every history of the bounded alphabet (key sets with negative keys, all-collide and empty-bucket moduli, three initial-value kinds), that the "
       "key set never changes, and the split / order lemmas of counting. Every reachable state is one history replayed into the real classes; seeded histories "
       "recorded from the real classes (all key dtypes, keys up to 2**62, long batches) are validated step by step by TLC. Right level because the property "
       "quantifies over histories and key sets / moduli: a state machine explored exhaustively on small universes plus trace validation on large ones.")
CLAIMED = {
    "C01": ("5 C01", _FN), "C02": ("5 C02", _FN), "C03": ("5 C03", _FN), "C04": ("5 C04", _FN), "C05": ("5 C05", _FN),
    "C07": ("5 C07", _FN), "C08": ("5 C08", _FN), "C09": ("5 C09", _FN),
    "C06": ("5 C06, 3.3", _SM), "C10": ("5 C10, 3.3", _SM),
    "C11": ("5 C11, 3.3", _HM), "C12": ("5 C12, 3.3", _HM),
    "C13": ("5 C13", _FN), "C18": ("5 C18", _FN),
    "C14": ("5 C14", _RL), "C15": ("5 C15", _RL), "C16": ("5 C16", _RL), "C17": ("5 C17", _RL),
    "C19": ("5 C19", "Model checking + conformance under both configurations: the specification has no index-width variable, so every TLC-generated case of the "
            "C01-C09 instances and every program of the heap machine has ONE expected outcome; each is executed under ViewBase.set_dtype(int64) and (int32) in "
            "the same process and the two projected outcomes must agree in everything the source property claims; seeded driver events are run under both "
            "widths and the 32-bit outcomes validated by TLC. Right level because the property quantifies over configurations x the inputs of C01-C09: the "
            "instances already enumerated for those properties are reused as the input space."),
}
PENDING = {}


def build():
    checks = []
    for pid in sorted(CLAIMED):
        sec, text = CLAIMED[pid]
        checks.append({
            "property_id": pid,
            "quick_cmd": f"./check {pid} --tier quick",
            "thorough_cmd": f"./check {pid} --tier thorough",
            "evidence_file": f"/verif/evidence/{pid}.json",
            "replay_cmd_template": "./check replay {path}",
            "engine": "tlc+replay",
            "level_claimed": {"category": "model_checking", "text": text, "design_ref": f"DESIGN.md section {sec}"},
            "level_note": NOTE,
            "technique": TECH,
        })
    na = [{"property_id": p, "reason": PENDING.get(p, "check under construction in this round (specification exists in spec/abs; binding not yet registered)")}
          for p in sorted(TITLES) if p not in CLAIMED]
    m = {
        "version": 1,
        "setup_cmd": "./check setup",
        "hooks": {
            "guard": "NPSTRUCTURES_VERIF",
            "enable": "no source hooks: checks import npstructures from /repo's working tree (VERIF_REPO overrides); the pytest trace plugin under /verif/harness wraps public methods only when NPSTRUCTURES_VERIF=1",
            "baseline_off_cmd": "cd /repo && /venv/bin/python -m pytest -ra -q -p no:cacheprovider --timeout=900 --continue-on-collection-errors",
            "source_commits": [],
            "add_only": True,
        },
        "engines": [{"name": "tlc+replay", "path": "/verif/check", "serves_properties": sorted(CLAIMED),
                     "kind_free_text": "TLA+ specification (spec/abs, spec/mech) checked by TLC 1.8; bounded instances (spec/mc) dumped and replayed into the code; recorded traces validated by TLC (spec/trace)"}],
        "checks": checks,
        "notes": "fix: commits in /repo and known findings are listed in /verif/known_findings.json and DESIGN.md section 6",
        "not_applicable": na,
    }
    with open(os.path.join(VERIF, "MANIFEST.json"), "w") as f:
        json.dump(m, f, indent=1)
    return m


if __name__ == "__main__":
    m = build()
    print("checks:", [c["property_id"] for c in m["checks"]], "n/a:", len(m["not_applicable"]))
