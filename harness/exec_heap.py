"""Execute a program of the heap machine (spec/abs/RaggedHeap.tla) on real RaggedArray objects.

A program is a list of steps (the `hist` of the specification):
  ["new", arr] | ["select", h, rsel, csel] | ["assign", h, rsel, csel, val] | ["ufunc", f, x, y] |
  ["func", name, h, arg] | ["read", h, kind]
Handles are 1-based positions in the list of live arrays.  After every step ALL live handles are observed by
"shadow read": a deep copy is read, so the observation itself never materialises a pending selection of the
original (which is exactly the effect C10 is about)."""
import copy, warnings
import numpy as np
from .common import use_repo
from .enc import DT2NP, dt_of, enc_seq, dec_val, dec_seq
from . import exec_ragged as ER

use_repo()
warnings.simplefilter("ignore")
from npstructures import RaggedArray  # noqa: E402
from npstructures.raggedshape import ViewBase  # noqa: E402


def shadow(x):
    """content of a live array without touching it"""
    try:
        y = copy.deepcopy(x)
        dt = dt_of(y.dtype)
        return [dt, [enc_seq(r, False, dt) for r in y]]
    except Exception as e:
        return ["raised", type(e).__name__]


def do_read(a, kind):
    if kind == "repr":
        repr(a)
    elif kind == "str":
        str(a)
    elif kind == "iter":
        for _ in a:
            pass
    elif kind == "tolist":
        a.tolist()
    elif kind == "ravel":
        a.ravel()
    elif kind == "sum":
        a.sum(axis=-1)
    elif kind == "nonzero":
        np.nonzero(a)
    elif kind == "ufunc":
        np.add(a, 1) if a.dtype != bool else np.logical_not(a)
    elif kind == "colsum":
        if a.size:
            a.sum(axis=0)
    elif kind == "len":
        len(a)
    elif kind == "shape":
        a.shape
    elif kind == "size":
        a.size
    elif kind == "dtype":
        a.dtype
    elif kind == "lengths":
        a.lengths
    elif kind == "copy":
        copy.deepcopy(a)
    # array functions / reductions executed for their result only
    elif kind == "unique":
        np.unique(a, axis=-1, return_counts=True)
    elif kind == "cumsum":
        if np.issubdtype(a.dtype, np.integer):
            np.cumsum(a, axis=-1)
        else:
            np.add.accumulate(a, axis=-1)
    elif kind == "sort":
        a.sort(axis=-1)
    elif kind == "diff":
        np.diff(a, axis=-1)
    elif kind == "accumulate":
        np.add.accumulate(a, axis=-1)
    elif kind == "max":
        if all(l > 0 for l in a.lengths) and len(a):
            a.max(axis=-1)
    elif kind == "mean":
        if a.size:
            a.mean(axis=0)
    elif kind == "rowmean":
        if a.size:
            a.mean(axis=-1)
    elif kind == "argmax":
        if all(l > 0 for l in a.lengths) and len(a):
            a.argmax(axis=-1)
    elif kind == "pad":
        if len(a):
            a.as_padded_matrix()
    elif kind == "where":
        np.where(a > 12, a, a)
    elif kind == "concat":
        np.concatenate([a, a])
    elif kind == "colbroadcast":
        if len(a):
            a + np.arange(len(a))[:, None]
    elif kind == "zeros_like":
        np.zeros_like(a)
    elif kind == "colvalues":
        a.get_column_values(0)
    elif kind == "getrow":
        if len(a):
            a[0]
    elif kind == "getelem":
        if len(a) and a.lengths[0] > 0:
            a[0, 0]
    elif kind == "pairs":                          # pairwise element read; the index arrays belong to the caller
        rows = [i for i, l in enumerate(a.lengths.tolist()) if l > 0][:3]
        if rows:
            R, C = np.array(rows, dtype=np.int64), np.full(len(rows), -1, dtype=np.int64)
            a[R, C]
            if R.tolist() != rows or C.tolist() != [-1] * len(rows):
                raise RuntimeError("index arrays modified")
    elif kind == "rowcol":
        a[:, 0:1]
    elif kind == "any":
        a.any(axis=-1)
    else:
        raise ValueError(kind)


def operand(objs, o):
    if o[0] == "h":
        return objs[o[1] - 1]
    return ER.py_operand(o, {})


def step(objs, st, o):
    """returns the step's own result: ["new", k] | ["obs", outcome] | ["none"]; a step that leaves numpy's global error state changed
    is reported as a failed step (the library is a guest in the process)"""
    err0 = np.geterr()
    res = _step(objs, st, o)
    if np.geterr() != err0:
        np.seterr(**err0)
        return ["obs", ["raised", "GlobalNumpyStateChanged"]]
    return res


def _step(objs, st, o):
    k = st[0]
    if k == "new":
        objs.append(ER.build(st[1], o.get("via0", "flat")))
        return ["new", len(objs)]
    if k == "select":
        a = objs[st[1] - 1]
        idx = ER.py_index(st[2], st[3], o.get("spelling", "plain"))
        try:
            r = a[idx]
            if isinstance(r, RaggedArray):
                # a ragged result only counts as created if it can be read (the library raises lazily):
                # probe a COPY so that the new handle itself stays pending
                probe = shadow(r)
                if probe[0] == "raised":
                    return ["obs", probe]
                objs.append(r)
                return ["new", len(objs)]
            out = ER.proj_any(r)
            if out[0] == "flat" and st[2][0] == "int" and st[3][0] != "int":
                out[0] = "row"
            return ["obs", out]
        except Exception as e:
            return ["obs", ["raised", type(e).__name__]]
    if k == "assign":
        a = objs[st[1] - 1]
        idx = ER.py_index(st[2], st[3], o.get("spelling", "plain"))
        try:
            a[idx] = ER.py_value(st[4], dt_of(a.dtype), o)
            return ["none"]
        except Exception as e:
            return ["obs", ["raised", type(e).__name__]]
    if k == "fill":
        try:
            objs[st[1] - 1].fill(dec_val(st[2], dt_of(objs[st[1] - 1].dtype)))
            return ["none"]
        except Exception as e:
            return ["obs", ["raised", type(e).__name__]]
    if k == "ufunc":
        try:
            x = operand(objs, st[2])
            r = ER.UFUNCS[st[1]](x) if st[3][0] == "none" else ER.UFUNCS[st[1]](x, operand(objs, st[3]))
            if isinstance(r, RaggedArray):
                objs.append(r)
                return ["new", len(objs)]
            return ["obs", ER.proj_any(r)]
        except Exception as e:
            return ["obs", ["raised", type(e).__name__]]
    if k == "func":
        name, h, arg = st[1], st[2], st[3]
        a = objs[h - 1]
        try:
            if name == "concat":
                r = np.concatenate([a, objs[arg[0] - 1]], axis=int(arg[1]))
            elif name == "concat1":
                r = np.concatenate([a])
            elif name == "cumsum":
                r = np.cumsum(a, axis=-1)
            elif name == "sort":
                r = a.sort(axis=-1)
            elif name == "diff":
                r = np.diff(a, n=int(arg), axis=-1)
            elif name == "unique":
                r = np.unique(a, axis=-1)
            elif name == "unique_obs":
                return ["obs", ER.proj_any(np.unique(a, axis=-1))]
            elif name == "nonzero_obs":
                return ["obs", ER.proj_any(a.nonzero())]
            elif name == "colsum_obs":
                return ["obs", ER.proj_any(a.sum(axis=0))]
            elif name == "pad_obs":
                return ["obs", ER.proj_any(a.as_padded_matrix())]
            elif name == "astype":
                r = a.astype(a.dtype)
            elif name in ("sum", "max", "min", "mean", "argmax", "argmin"):
                r = getattr(a, name)(axis=-1)
                return ["obs", ER.proj_any(r, False, "flat")]
            else:
                raise ValueError(name)
            if isinstance(r, RaggedArray):
                objs.append(r)
                return ["new", len(objs)]
            return ["obs", ER.proj_any(r)]
        except Exception as e:
            return ["obs", ["raised", type(e).__name__]]
    if k == "read":
        try:
            do_read(objs[st[1] - 1], st[2])
        except Exception as e:
            return ["obs", ["raised", type(e).__name__]]
        return ["none"]
    raise ValueError(st)


def run_program(prog, opts=None, observe="all"):
    """Returns a list, one entry per step: {"res": step result, "obs": [content of every live handle]}.
    observe = "all": after every step; "last": only after the last step."""
    o = opts or {}
    w = o.get("width")
    if w:
        ViewBase.set_dtype(np.int32 if w == 32 else np.int64)
    try:
        objs = []
        out = []
        for i, st in enumerate(prog):
            hs = [st[1]] if st[0] in ("select", "assign", "read", "fill") else [x[1] for x in (st[2], st[3]) if x[0] == "h"] if st[0] == "ufunc" \
                else ([st[2], st[3][0]] if st[1] == "concat" else [st[2]]) if st[0] == "func" else []
            if any(h > len(objs) for h in hs):
                res = ["obs", ["raised", "MissingHandle"]]       # an earlier step failed to create it: reported there
            else:
                res = step(objs, st, o)
            ob = [shadow(x) for x in objs] if (observe == "all" or i == len(prog) - 1) else None
            out.append({"res": res, "obs": ob})
        return out
    finally:
        if w:
            ViewBase.set_dtype(np.int64)


def execute(case, opts=None):
    """uniform entry point: case = ["program", steps]"""
    return run_program(case[1], opts)
