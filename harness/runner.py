"""Orchestration of one property check: model stage (TLC + replay), trace stage (driver + TLC validation),
classification against known findings, evidence, verdict lines."""
import os, sys, json, importlib, multiprocessing as mp, time
from .common import VERIF, SPEC, SEED, NCPU, scratch, short_hash, Timer
from . import tlc, replay, trace, findings

TIER = os.environ.get("VERIF_TIER", "quick")


def _exec_chunk(args):
    family, events = args
    fam = importlib.import_module("harness.exec_" + family)
    out = []
    for e in events:
        out.append(replay.run_case(fam.execute, e["case"], e.get("opts") or {}))
    return out


def exec_events(family, events, procs=NCPU):
    chunks = [events[i::procs * 4] for i in range(procs * 4)]
    chunks = [c for c in chunks if c]
    ctx = mp.get_context("fork")
    with ctx.Pool(procs) as pool:
        outs = pool.map(_exec_chunk, [(family, c) for c in chunks])
    for k, (c, o) in enumerate(zip(chunks, outs)):
        for e, x in zip(c, o):
            e["out"] = x
            e["_chunk"] = k
    return events


def confirm_events(family, events, suspects):
    """A deterministic library reproduces a real mismatch.  Every chunk that contains a suspect event is executed again, whole and in the
    same order (so that process-wide state left by earlier events is re-created), in a fresh process; returns the ids whose outcome recurs."""
    by_chunk = {}
    for e in events:
        by_chunk.setdefault(e.get("_chunk"), []).append(e)
    want = sorted({e["_chunk"] for e in events if e["id"] in suspects})
    if not want:
        return set()
    ctx = mp.get_context("fork")
    confirmed = set()
    with ctx.Pool(min(NCPU, len(want)), maxtasksperchild=1) as pool:
        outs = pool.map(_exec_chunk, [(family, [dict(case=e["case"], opts=e.get("opts")) for e in by_chunk[k]]) for k in want], chunksize=1)
    for k, o in zip(want, outs):
        for e, x in zip(by_chunk[k], o):
            if e["id"] in suspects and json.dumps(x) == json.dumps(e["out"]):
                confirmed.add(e["id"])
    return confirmed


class Result:
    def __init__(self, prop):
        self.prop = prop
        self.states = 0
        self.transitions = 0
        self.evaluations = 0
        self.nontrivial = 0
        self.traces = 0
        self.unspec = 0
        self.bad = []            # mismatch records
        self.samples = []
        self.extra = {}
        self.lemmas = []


def model_stage(res, prop, family, mc_module, strict, want_phase=2, variants_name="variants", timeout=1500, shared=False):
    """TLC enumerates the bounded instance (checking the model-level invariants in the same run), dumps every
    state; each case state is replayed into the real code."""
    cfg = os.path.join(SPEC, "mc", f"{mc_module}.{prop + '.' if shared else ''}{TIER}.cfg")
    dump = os.path.join(scratch(), f"{mc_module}.{os.getpid()}.dump")
    t = Timer()
    r = tlc.run_tlc(os.path.join(SPEC, "mc", mc_module + ".tla"), cfg, dump=dump, timeout=timeout)
    tlc.require_clean(r, f"{mc_module} ({TIER})")
    res.states += r["distinct"]
    res.transitions += r["states"]
    res.extra.setdefault("tlc", []).append({"module": mc_module, "cfg": os.path.basename(cfg), "generated": r["states"], "distinct": r["distinct"], "wall_s": t.s()})
    t2 = Timer()
    tot, bad, samples = replay.replay_dump(dump, family, prop, strict, variants_name, want_phase)
    os.remove(dump)
    res.evaluations += tot["evals"]
    res.nontrivial += tot["nontrivial"]
    res.traces += tot["cases"] - tot["unspec"]
    res.unspec += tot["unspec"]
    res.extra.setdefault("replay", []).append(dict(tot, wall_s=t2.s(), module=mc_module))
    for b in bad:
        b["binding"] = "A:tlc->code"
        b["family"] = family
    res.bad += bad
    res.samples += samples[:2]
    return res


def trace_stage(res, prop, family, driver_module, trace_module, n, strict_override=None):
    """A seeded driver runs n random cases on the real code; TLC judges every recorded event."""
    drv = importlib.import_module("harness." + driver_module)
    pv = importlib.import_module("harness.props")
    t = Timer()
    events = drv.generate(prop, SEED, n)
    exec_events(family, events)
    payload = [{"id": e["id"], "case": e["case"], "out": e["out"], "strict": bool(e["strict"])} for e in events]
    verdicts, st = trace.validate(payload, trace_module)
    res.states += st["trace_states"]
    res.transitions += st["trace_states"]
    nt = 0
    seen = set()
    suspects = {e["id"] for e in events if verdicts[e["id"]][0] not in ("ok", "unspec") and not pv.unclaimed_refusal(e.get("opts"), verdicts[e["id"]][0])}
    confirmed = confirm_events(family, events, suspects)
    if suspects - confirmed:
        res.extra.setdefault("transient", []).append({"stage": "trace", "events_not_reproduced": len(suspects - confirmed)})
    for e in events:
        v, exp = verdicts[e["id"]]
        if pv.unclaimed_refusal(e.get("opts"), v):
            v = "unspec"
        h = short_hash(e["case"])
        if v == "unspec":
            res.unspec += 1
        elif v != "ok" and e["id"] in confirmed:
            res.bad.append({"case": e["case"], "opts": e.get("opts"), "expected": exp, "observed": e["out"], "verdict": v,
                            "binding": "B:code->tlc", "family": family})
        if h not in seen and pv.nontrivial(prop, e["case"]):
            seen.add(h)
            nt += 1
    res.evaluations += len(events)
    res.nontrivial += nt
    res.traces += len(events)
    res.extra.setdefault("trace", []).append({"module": trace_module, "events": len(events), "distinct_nontrivial": nt,
                                              "shards": st["shards"], "wall_s": t.s()})
    if events:
        res.samples.append({"case": events[0]["case"], "opts": events[0].get("opts"), "observed": events[0]["out"]})
    return res


def finish(res, level_text, rule, assumptions, wall, exhaustive=True):
    """Classify mismatches, write replay files and evidence, print verdict lines, return the exit code."""
    prop = res.prop
    kf = findings.load()
    violations, known = [], {}
    inexact = 0
    for b in res.bad:
        f = findings.classify(prop, b, kf)
        if f is not None:
            known.setdefault(f["id"], [f, 0])
            known[f["id"]][1] += 1
            if b.get("family") == "heap" and not (b.get("stale") and b.get("mech_match")):
                inexact += 1
        else:
            violations.append(b)
    os.makedirs(os.path.join(VERIF, "replays"), exist_ok=True)
    os.makedirs(os.path.join(VERIF, "evidence"), exist_ok=True)
    if os.environ.get("VERIF_DUMP_ALL"):                       # diagnosis aid: every mismatch, one JSON object per line
        with open(os.environ["VERIF_DUMP_ALL"], "w") as f:
            for b in violations:
                f.write(json.dumps({k: v for k, v in b.items() if not k.startswith("_")}, default=str) + "\n")
    printed = set()
    for b in violations:
        key = short_hash([b.get("case"), b.get("opts"), b.get("steps"), b.get("handle")])
        if key in printed:
            continue
        printed.add(key)
        if len(printed) > 8:
            continue
        path = os.path.join(VERIF, "replays", f"{prop}-{key}.json")
        with open(path, "w") as f:
            json.dump({"property": prop, "family": b.get("family"), "binding": b.get("binding"), "case": b.get("case"), "opts": b.get("opts"),
                       "steps": b.get("steps"), "expected": b.get("expected"), "observed": b.get("observed"), "verdict": b.get("verdict"),
                       "seed": SEED, "tier": TIER}, f)
        print(f"VIOLATION property={prop} replay={path}")
        print(f"  verdict={b.get('verdict')} binding={b.get('binding')} case={json.dumps(b.get('case') or b.get('steps'))[:240]} opts={b.get('opts')} expected={json.dumps(b.get('expected'))[:120]} observed={json.dumps(b.get('observed'))[:120]}")
    if len(printed) > 8:
        print(f"  ... {len(printed) - 8} further distinct violating cases not listed")
    for fid, (f, cnt) in sorted(known.items()):
        print(f"KNOWN-FINDING: property={prop} {f['what']} [{fid}: {cnt} case(s) this run]")
    ev = {
        "property_id": prop, "tier": TIER, "seed": SEED, "level": "model_checking",
        "coverage": {
            "states": res.states, "transitions": res.transitions, "traces_validated_against_impl": res.traces,
            "samples": res.samples[:4] or [{"note": "no sample"}],
            "evaluations": res.evaluations, "distinct_nontrivial": res.nontrivial, "rule": rule,
            "out_of_claim": res.unspec, "known_findings": {k: v[1] for k, v in known.items()}, "known_findings_not_exactly_predicted_by_level_M": inexact,
            "exhaustive": exhaustive, "explanation": level_text, "lemmas": res.lemmas, **res.extra,
        },
        "assumptions": assumptions, "wall_s": wall, "violations": len(printed),
    }
    with open(os.path.join(VERIF, "evidence", f"{prop}.json"), "w") as f:
        json.dump(ev, f, indent=1, default=str)
    print(f"{prop} [{TIER}] states={res.states} evaluations={res.evaluations} nontrivial={res.nontrivial} "
          f"out_of_claim={res.unspec} known={sum(v[1] for v in known.values())} violations={len(printed)} wall={wall}s")
    return 1 if violations else 0


def _regen(args):
    module, seed, per, prop = args
    return importlib.import_module("harness." + module).generate_and_run(seed, per, prop)


def _confirm_programs(res, module, prop, per, shards, byid, needs_confirmation):
    """Mismatches found by the trace validator are confirmed by generating and running the shard again in a fresh process (the drivers are
    deterministic): a mismatch whose recorded observation does not recur is dropped and counted as transient."""
    mine = [b for b in res.bad if b.get("binding") == "B:code->tlc" and "steps" in b and needs_confirmation(b) and "_pid" in b]
    if not mine:
        return
    want = sorted({b["_pid"] // 100000 for b in mine})
    ctx = mp.get_context("fork")
    with ctx.Pool(min(NCPU, len(want)), maxtasksperchild=1) as pool:
        again = dict(zip(want, pool.map(_regen, [(module, SEED * 1000 + k, per, prop) for k in want], chunksize=1)))
    dropped = 0
    for b in mine:
        k, i = b["_pid"] // 100000, b["_pid"] % 100000
        p2 = again[k][i]
        st = b["_step"]
        same = st <= len(p2["rec"]) and json.dumps(p2["steps"][:st]) == json.dumps(b["steps"]) and json.dumps(p2["rec"][st - 1]) == json.dumps(byid[b["_pid"]]["rec"][st - 1])
        if not same:
            res.bad.remove(b)
            dropped += 1
    if dropped:
        res.extra.setdefault("transient", []).append({"stage": "program traces", "mismatches_not_reproduced": dropped})


# ------------------------------------------------------------------ heap machine stages (C06, C10)
def heap_model_stage(res, prop, cfg_name, timeout=1500):
    """TLC explores every program of the bounded alphabet (checking refinement of the mechanism level, frame and
    read-purity properties); every reachable state = one program, replayed into the real code."""
    cfg = os.path.join(SPEC, "mc", f"MC_Heap.{cfg_name}.{TIER}.cfg")
    dump = os.path.join(scratch(), f"MC_Heap.{os.getpid()}.dump")
    t = Timer()
    r = tlc.run_tlc(os.path.join(SPEC, "mc", "MC_Heap.tla"), cfg, dump=dump, timeout=timeout)
    tlc.require_clean(r, f"MC_Heap {cfg_name} ({TIER})")
    res.states += r["distinct"]
    res.transitions += r["states"]
    res.extra.setdefault("tlc", []).append({"module": "MC_Heap", "cfg": os.path.basename(cfg), "generated": r["states"], "distinct": r["distinct"], "wall_s": t.s()})
    t2 = Timer()
    tot, bad, samples = replay.replay_heap_dump(dump, prop)
    os.remove(dump)
    res.evaluations += tot["evals"]
    res.nontrivial += tot["nontrivial"]
    res.traces += tot["cases"]
    res.extra.setdefault("replay", []).append(dict(tot, wall_s=t2.s(), module="MC_Heap"))
    for b in bad:
        b["binding"] = "A:tlc->code"
        b["family"] = "heap"
    res.bad += bad
    res.samples += samples[:2]
    return res


def _heap_shard(args):
    path, timeout = args
    r = tlc.run_tlc(os.path.join(SPEC, "trace", "Trace_Heap.tla"), os.path.join(SPEC, "trace", "Trace_Heap.cfg"),
                    workers=1, timeout=timeout, env={"TRACE_FILE": path}, heap="2g", name=os.path.basename(path))
    return path, r


def heap_trace_stage(res, prop, n, shards=NCPU, timeout=900):
    """A seeded driver runs n random programs (deep, chained selections, all selector kinds) on the real code,
    observing every live handle after every step; TLC walks the specification's state machine along each
    recorded program and judges every observation."""
    import concurrent.futures as cf
    from . import drivers_heap, tlaparse
    t = Timer()
    ctx = mp.get_context("fork")
    per = (n + shards - 1) // shards
    with ctx.Pool(shards) as pool:
        parts = pool.starmap(drivers_heap.generate_and_run, [(SEED * 1000 + k, per, prop) for k in range(shards)])
    sc = scratch()
    jobs = []
    for k, progs in enumerate(parts):
        for p in progs:
            p["id"] = k * 100000 + p["id"]
        path = os.path.join(sc, f"heaptrace.{os.getpid()}.{k}.json")
        with open(path, "w") as f:
            json.dump([{"id": p["id"], "steps": p["steps"], "rec": p["rec"]} for p in progs], f)
        jobs.append((path, timeout))
    byid = {p["id"]: p for progs in parts for p in progs}
    states = 0
    skipped = 0
    with cf.ThreadPoolExecutor(shards) as ex:
        for path, r in ex.map(_heap_shard, jobs):
            if r["errors"] or not r["finished"] or r["violated"]:
                lines = r["stdout"].splitlines()
                k = next((i for i, l in enumerate(lines) if l.startswith("Error:")), max(0, len(lines) - 30))
                raise tlc.TLCError("heap trace validation did not run to the end:\n" + "\n".join(lines[k:k + 25]))
            states += r["distinct"]
            for raw in tlc.printed_tuples(r["stdout"]):
                v = tlaparse.parse_value(raw)
                if v[0] == "S":
                    skipped += 1
                    continue
                pr = byid[v[1]]
                res.bad.append({"steps": pr["steps"][:v[2]], "opts": pr["opts"], "handle": v[3], "verdict": v[4], "expected": v[5], "mech": v[6],
                                "observed": pr["rec"][v[2] - 1]["res"] if v[3] == 0 else pr["rec"][v[2] - 1]["obs"][v[3] - 1] if v[3] <= len(pr["rec"][v[2] - 1]["obs"]) else None,
                                "stale": v[4] == "known", "mech_match": v[4] == "known", "maystale": v[4] in ("known", "known-inexact"),
                                "binding": "B:code->tlc", "family": "heap", "_pid": v[1], "_step": v[2]})
            os.remove(path)
    _confirm_programs(res, "drivers_heap", prop, per, shards, byid, lambda b: not b.get("maystale"))
    nsteps = sum(len(p["steps"]) for p in byid.values())
    res.states += states
    res.transitions += states
    res.evaluations += nsteps
    res.nontrivial += len({short_hash(p["steps"]) for p in byid.values() if len(p["steps"]) >= 3})
    res.traces += len(byid)
    res.unspec += skipped
    res.extra.setdefault("trace", []).append({"module": "Trace_Heap", "programs": len(byid), "steps": nsteps, "programs_cut_short": skipped,
                                              "observations": sum(len(x["obs"]) for p in byid.values() for x in p["rec"]), "wall_s": t.s()})
    any_p = next(iter(byid.values()))
    res.samples.append({"program": any_p["steps"], "recorded": any_p["rec"][-1]})
    return res


# ------------------------------------------------------------------ C19: both index-width configurations
def judge_like(a, b):
    """the validator printed nothing for this event (it conforms): the 64-bit outcome must then agree wherever both are fully claimed"""
    if a[0] == "raised" and b[0] == "raised":
        return True
    if a[0] == b[0] == "ragged" and repr(a) != repr(b):
        return False
    return repr(a) == repr(b)


def c19_model_stage(res, family, mc_module, cfg_name, want_phase=2, timeout=1500):
    cfg = os.path.join(SPEC, "mc", f"{mc_module}.{cfg_name}.cfg")
    dump = os.path.join(scratch(), f"{mc_module}.c19.{os.getpid()}.dump")
    t = Timer()
    r = tlc.run_tlc(os.path.join(SPEC, "mc", mc_module + ".tla"), cfg, dump=dump, timeout=timeout)
    tlc.require_clean(r, f"{mc_module} ({cfg_name})")
    res.states += r["distinct"]
    res.transitions += r["states"]
    tot, bad, samples = replay.replay_c19(dump, family, want_phase)
    os.remove(dump)
    res.evaluations += tot["evals"]
    res.nontrivial += tot["nontrivial"]
    res.traces += tot["cases"]
    res.extra.setdefault("replay", []).append(dict(tot, module=mc_module, cfg=cfg_name, tlc_states=r["distinct"], wall_s=t.s()))
    for b in bad:
        b["binding"] = "A:tlc->code (64-bit vs 32-bit run of the same TLC-generated case)"
        b["family"] = family
    res.bad += bad
    res.samples += samples[:1]


def c19_trace_stage(res, props, n_each):
    """driver events of C01-C09 executed under the 32-bit configuration and judged by TLC; an event counts against C19 only
    if the same event conforms (or is out of claim) under the 64-bit configuration"""
    drv = importlib.import_module("harness.drivers_ragged")
    t = Timer()
    events = []
    for p in props:
        for e in drv.generate(p, SEED, n_each):
            e["id"] = len(events)
            e["prop"] = p
            events.append(e)
    from .props import safe_opts
    ev64 = [dict(e, opts=dict(safe_opts(e["opts"]), width=64)) for e in events]
    ev32 = [dict(e, opts=dict(safe_opts(e["opts"]), width=32)) for e in events]
    exec_events("ragged", ev64)
    exec_events("ragged", ev32)
    payload = [{"id": e["id"], "case": e["case"], "out": e["out"], "strict": bool(e["strict"])} for e in ev32]
    v32, st = trace.validate(payload, "Trace_Ragged")
    res.states += st["trace_states"]
    res.transitions += st["trace_states"]
    diff = 0
    for a, b in zip(ev64, ev32):
        v, exp = v32[b["id"]]
        if v == "unspec":
            res.unspec += 1
            continue
        # v == "ok": the 32-bit outcome conforms to the specification; then it may differ from the 64-bit outcome only in unclaimed parts
        if exp is None and b["case"][0] == "like" and b["case"][1] == "empty":
            exp = ["shape"]                                         # empty_like: content is uninitialised memory
        same = replay.same_outcome(exp, a["out"], b["out"]) if exp is not None else (v == "ok" and judge_like(a["out"], b["out"]))
        if not same:
            diff += 1
            res.bad.append({"case": b["case"], "opts": b["opts"], "expected": a["out"], "observed": b["out"], "verdict": "width",
                            "spec": exp, "verdict32": v, "binding": "B:code->tlc (32-bit outcome judged by TLC, compared with the 64-bit outcome)", "family": "ragged"})
    res.evaluations += 2 * len(events)
    res.traces += len(events)
    res.nontrivial += len({short_hash(e["case"]) for e in events})
    res.extra.setdefault("trace", []).append({"module": "Trace_Ragged", "events_per_width": len(events), "differences": diff, "wall_s": t.s()})


# ------------------------------------------------------------------ hash-table machine stages (C11, C12)
def hash_model_stage(res, prop, timeout=1500):
    cfg = os.path.join(SPEC, "mc", f"MC_Hash.{prop}.{TIER}.cfg")
    dump = os.path.join(scratch(), f"MC_Hash.{os.getpid()}.dump")
    t = Timer()
    r = tlc.run_tlc(os.path.join(SPEC, "mc", "MC_Hash.tla"), cfg, dump=dump, timeout=timeout)
    tlc.require_clean(r, f"MC_Hash {prop} ({TIER})")
    res.states += r["distinct"]
    res.transitions += r["states"]
    res.extra.setdefault("tlc", []).append({"module": "MC_Hash", "cfg": os.path.basename(cfg), "generated": r["states"], "distinct": r["distinct"], "wall_s": t.s()})
    t2 = Timer()
    tot, bad, samples = replay.replay_hash_dump(dump, prop)
    os.remove(dump)
    res.evaluations += tot["evals"]
    res.nontrivial += tot["nontrivial"]
    res.traces += tot["cases"]
    res.unspec += tot["unspec"]
    res.extra.setdefault("replay", []).append(dict(tot, wall_s=t2.s(), module="MC_Hash"))
    for b in bad:
        b["binding"] = "A:tlc->code"
        b["family"] = "hash"
    res.bad += bad
    res.samples += samples[:2]
    return res


def _hash_shard(args):
    path, timeout = args
    r = tlc.run_tlc(os.path.join(SPEC, "trace", "Trace_Hash.tla"), os.path.join(SPEC, "trace", "Trace_Hash.cfg"),
                    workers=1, timeout=timeout, env={"TRACE_FILE": path}, heap="2g", name=os.path.basename(path))
    return path, r


def hash_trace_stage(res, prop, n, shards=NCPU, timeout=900):
    import concurrent.futures as cf
    from . import drivers_hash, tlaparse
    t = Timer()
    ctx = mp.get_context("fork")
    per = (n + shards - 1) // shards
    with ctx.Pool(shards) as pool:
        parts = pool.starmap(drivers_hash.generate_and_run, [(SEED * 1000 + k, per, prop) for k in range(shards)])
    sc = scratch()
    jobs = []
    for k, progs in enumerate(parts):
        for p in progs:
            p["id"] = k * 100000 + p["id"]
        path = os.path.join(sc, f"hashtrace.{os.getpid()}.{k}.json")
        with open(path, "w") as f:
            json.dump([{"id": p["id"], "steps": p["steps"], "rec": p["rec"]} for p in progs], f)
        jobs.append((path, timeout))
    byid = {p["id"]: p for progs in parts for p in progs}
    states = skipped = 0
    with cf.ThreadPoolExecutor(shards) as ex:
        for path, r in ex.map(_hash_shard, jobs):
            if r["errors"] or not r["finished"] or r["violated"]:
                lines = r["stdout"].splitlines()
                k = next((i for i, l in enumerate(lines) if l.startswith("Error:")), max(0, len(lines) - 30))
                raise tlc.TLCError("hash trace validation did not run to the end:\n" + "\n".join(lines[k:k + 25]))
            states += r["distinct"]
            for raw in tlc.printed_tuples(r["stdout"]):
                v = tlaparse.parse_value(raw)
                if v[0] == "S":
                    skipped += 1
                    continue
                pr = byid[v[1]]
                rec = pr["rec"][v[2] - 1]
                res.bad.append({"steps": pr["steps"][:v[2]], "opts": pr["opts"], "handle": v[3], "verdict": v[4], "expected": v[5],
                                "observed": rec["res"] if v[3] == 0 else rec["obs"][v[3] - 1] if v[3] <= len(rec["obs"]) else None,
                                "binding": "B:code->tlc", "family": "hash", "_pid": v[1], "_step": v[2]})
            os.remove(path)
    _confirm_programs(res, "drivers_hash", prop, per, shards, byid, lambda b: True)
    nsteps = sum(len(p["steps"]) for p in byid.values())
    res.states += states
    res.transitions += states
    res.evaluations += nsteps
    res.nontrivial += len({short_hash(p["steps"]) for p in byid.values() if len(p["steps"]) >= 3})
    res.traces += len(byid)
    res.unspec += skipped
    res.extra.setdefault("trace", []).append({"module": "Trace_Hash", "programs": len(byid), "steps": nsteps, "programs_cut_short": skipped,
                                              "observations": sum(len(x["obs"]) for p in byid.values() for x in p["rec"]), "wall_s": t.s()})
    any_p = next(iter(byid.values()))
    res.samples.append({"program": any_p["steps"][:6], "opts": any_p["opts"], "recorded": any_p["rec"][min(5, len(any_p["rec"]) - 1)]})
    return res


# ------------------------------------------------------------------ stand-alone mechanism models (spec/mech) and Apalache lemmas
def mech_stage(res, module, lemmas, timeout=1200):
    """TLC on a level-M model: the algorithm the code uses, checked against its level-A meaning (a design-level check)."""
    cfg = os.path.join(SPEC, "mech", f"{module}.{TIER}.cfg")
    t = Timer()
    r = tlc.run_tlc(os.path.join(SPEC, "mech", module + ".tla"), cfg, timeout=timeout)
    tlc.require_clean(r, f"mechanism model {module} ({TIER})")
    res.states += r["distinct"]
    res.transitions += r["states"]
    res.lemmas.append({"module": "spec/mech/" + module, "lemmas": lemmas, "distinct_states": r["distinct"], "result": "hold", "wall_s": t.s()})


def apalache_stage(res, module, inv, timeout=300):
    """Unbounded lemma by Apalache (SMT).  Failure to finish is reported in the evidence, never as a violation; a counterexample is a machinery failure."""
    import subprocess, shutil
    out = os.path.join(scratch(), "apa." + module)
    t = Timer()
    try:
        jtmp = os.path.join(scratch(), "jtmp")               # Apalache's launcher creates a java.io.tmpdir of its own and leaves it behind
        os.makedirs(jtmp, exist_ok=True)
        env = dict(os.environ, TMPDIR=jtmp)                  # the apalache-mc launcher does `mktemp -d -t SANY...` for java.io.tmpdir
        p = subprocess.run(["timeout", str(timeout), "apalache-mc", "check", "--init=Init", f"--inv={inv}", "--length=0", f"--out-dir={out}",
                            os.path.join(SPEC, "mech", module + ".tla")], capture_output=True, text=True, cwd=scratch(), env=env)
        txt = p.stdout + p.stderr
        result = "proved (no error)" if "The outcome is: NoError" in txt else "counterexample" if "The outcome is: Error" in txt else "did not finish"
    except FileNotFoundError:
        result = "apalache not available"
    shutil.rmtree(out, ignore_errors=True)
    res.lemmas.append({"module": "spec/mech/" + module, "lemmas": [inv], "engine": "apalache 0.58 (unbounded Int)", "result": result, "wall_s": t.s()})
    if result == "counterexample":
        raise tlc.TLCError(f"Apalache found a counterexample to {inv} in {module}: the mechanism model or the code changed")


# ------------------------------------------------------------------ the repository's own suite, re-judged call by call (binding B)
_SUITE_CACHE = {}


def suite_trace_stage(res, prop, op):
    """Run the pinned suite of the working tree under the trace plugin (NPSTRUCTURES_VERIF=1; no source change), and let TLC judge every
    recorded outermost public call of the given operation.  The suite's own outcome is not judged here."""
    import subprocess
    from .common import REPO, PY
    t = Timer()
    out = os.path.join(scratch(), f"suite_trace.{os.getpid()}.json")
    env = dict(os.environ, NPSTRUCTURES_VERIF="1", VERIF_TRACE_OUT=out, PYTHONPATH=REPO + os.pathsep + VERIF, VERIF_REPO=REPO, PYTHONDONTWRITEBYTECODE="1")
    p = subprocess.run([PY, "-m", "pytest", "-q", "-x", "--no-header", "-p", "no:cacheprovider", "-p", "harness.pytest_trace_plugin", "--timeout=600"],
                       cwd=REPO, env=env, capture_output=True, text=True)
    if not os.path.exists(out):
        res.extra.setdefault("suite_trace", []).append({"op": op, "error": "no trace written: " + (p.stdout + p.stderr)[-300:]})
        return res
    events = [e for e in json.load(open(out)) if e["case"][0] == op]
    os.remove(out)
    for i, e in enumerate(events):
        e["id"] = i
    if not events:
        res.extra.setdefault("suite_trace", []).append({"op": op, "events": 0})
        return res
    verdicts, st = trace.validate([{"id": e["id"], "case": e["case"], "out": e["out"], "strict": bool(e["strict"])} for e in events], "Trace_Ragged")
    res.states += st["trace_states"]
    res.transitions += st["trace_states"]
    n_unspec = 0
    for e in events:
        v, exp = verdicts[e["id"]]
        if v == "unspec":
            n_unspec += 1
        elif v != "ok":
            res.bad.append({"case": e["case"], "opts": {"recorded_in": e.get("test", "")}, "expected": exp, "observed": e["out"], "verdict": v,
                            "binding": "B:code->tlc (call recorded while the repository's own suite ran)", "family": "ragged"})
    res.evaluations += len(events)
    res.traces += len(events) - n_unspec
    res.unspec += n_unspec
    res.extra.setdefault("suite_trace", []).append({"op": op, "events": len(events), "out_of_claim": n_unspec, "suite_summary": (p.stdout.strip().splitlines() or [""])[-1][:120], "wall_s": t.s()})
    return res
