"""The registered checks, one function per property."""
import os
from .common import Timer
from . import runner

TIER = os.environ.get("VERIF_TIER", "quick")
Q = TIER == "quick"

A_REGIME = ["numpy 2.5.3 semantics as transcribed in spec/abs/NpVal.tla and PySeq.tla (calibrated by ./check selftest)",
            "TLC integers are 32-bit: 64-bit (32-bit) extremes are reached by executing 16-bit cases in the top 16 bits of the wide dtypes (high-bits realisation) "
            "and by 16-bit limbs for value-moving operations and totals; multiplicative 64-bit arithmetic is outside the modelled regime",
            "floats are small dyadic rationals plus infinities, NaN and negative zero; float16 results are claimed only where float16 holds them exactly",
            "small-scope exhaustive enumeration by TLC plus seeded random cases; larger inputs are sampled"]



MECH = {
    "C02": [("MC_ShapeMech", ["SingleOK", "ComposeOK", "IntOK", "BuildOK"])],
    "C04": [("ReduceMech", ["BroadcastOK"])],
    "C05": [("ReduceMech", ["ReduceOK", "ReduceNeverFails"])],
    "C06": [("MC_ShapeMech", ["ComposeOK", "BuildOK"])],
    "C07": [("ReduceMech", ["AccumulateOK", "CumsumOK"])],
    "C14": [("RLMech", ["RoundTrip"])],
    "C15": [("RLMech", ["SliceOK"])],
    "C16": [("RLMech", ["MergeOK"])],
}
APA = {"C02": [("ColSliceApa", "Agree")], "C15": [("RLStepApa", "Agree")], "C04": [("HiBitsApa", "Iso")]}


def mech_stages(res, prop):
    if prop == "C06" and Q:
        return                                   # ComposeOK / BuildOK run in C02's quick check; here only in the thorough tier
    for module, lemmas in MECH.get(prop, []):
        runner.mech_stage(res, module, lemmas)
    for module, inv in APA.get(prop, []):
        runner.apalache_stage(res, module, inv)


SUITE_OPS = {"C02": "getitem", "C03": "setitem", "C04": "ufunc"}      # calls of the repository's own suite re-judged by TLC


def _ragged_check(prop, strict, n_quick, n_thorough, text, rule):
    def run():
        t = Timer()
        res = runner.Result(prop)
        mech_stages(res, prop)
        runner.model_stage(res, prop, "ragged", "MC_" + prop, strict=strict)
        runner.trace_stage(res, prop, "ragged", "drivers_ragged", "Trace_Ragged", n_quick if Q else n_thorough)
        if prop in SUITE_OPS:
            runner.suite_trace_stage(res, prop, SUITE_OPS[prop])
        return runner.finish(res, text, rule, A_REGIME, t.s())
    return run


BIND = (" Every enumerated case state is executed against the real RaggedArray under two realisations of the operand (freshly built; "
        "a still-pending selection of a larger array / alternative call spelling) and compared with the outcome level A demands; a seeded "
        "driver adds all dtypes, larger shapes and extreme values whose recorded outcomes TLC judges with the same operator (Trace_Ragged).")

def _heap_check(prop, cfg, n_quick, n_thorough, text):
    def run():
        t = Timer()
        res = runner.Result(prop)
        mech_stages(res, prop)
        runner.heap_model_stage(res, prop, cfg)
        runner.heap_trace_stage(res, prop, n_quick if Q else n_thorough)
        return runner.finish(res, text,
            "case = one program (sequence of API steps on a heap of handles); distinct by step sequence; non-trivial = at least one step after construction "
            "(model stage) / at least two steps after construction (trace stage); every live handle is observed after the program (model stage) or after every step (trace stage)",
            A_REGIME + ["content of pending selections is observed through copy.deepcopy (shadow read), which does not materialise the original"], t.s())
    return run


HEAP_TEXT = ("TLC explores every program over the configured alphabet of the heap machine (spec/abs/RaggedHeap.tla: level A heap of values + level M "
             "buffers / pending views / Materialise), checking RefinesModuloStale, WrongOnlyIfStale, AliasesAgree, ContigOwnBuffer, DerivedIsFresh and the "
             "action properties ReadPure, AssignFrame, HeapOnlyGrows; every reachable state is one program that is replayed into the real RaggedArray "
             "and every live handle compared with level A. A seeded driver runs deeper random programs (chained selections of selections, all selector "
             "kinds, assignments to any handle, reads anywhere) observing every handle after every step; TLC walks the state machine along each recorded "
             "program (Trace_Heap). Reads are free actions, so all placements of reads are explored and all are judged against the same read-free level-A content.")

def c19():
    t = Timer()
    res = runner.Result("C19")
    runner.apalache_stage(res, "CodeWordApa", "WordsArePairs")      # level M of the 32-bit configuration: a (start, length) pair as one 64-bit word
    cfg = "c19" if Q else "quick"
    for m in ["MC_C01", "MC_C02", "MC_C03", "MC_C04", "MC_C05", "MC_C07", "MC_C08", "MC_C09"]:
        runner.c19_model_stage(res, "ragged", m, cfg)
    runner.c19_model_stage(res, "heap", "MC_Heap", "c19" if Q else "C06.quick")
    runner.c19_trace_stage(res, ["C01", "C02", "C03", "C04", "C05", "C07", "C08", "C09"], 400 if Q else 4000)
    runner.c19_trace_stage(res, ["C19x"], 300 if Q else 3000)          # cases aimed at the index width: many rows, narrow numpy indices
    return runner.finish(res,
        "The specification has no index-width variable: no level-A operator can depend on it (WidthIrrelevant by construction), so the expected outcome of every "
        "case is the same under both configurations. Every TLC-generated case of the C01-C09 instances and every program of the heap machine is executed twice in "
        "one process - ViewBase.set_dtype(int64) and ViewBase.set_dtype(int32), arrays built after the switch - and the two projected outcomes (values, row lengths, "
        "dtypes, raise-vs-return) must be identical; seeded driver events are run under both widths too and the 32-bit outcomes are validated by TLC. A case that "
        "is wrong under both configurations is charged to its own property, not to C19.",
        "case = a C01-C09 case or heap program, executed under both widths; non-trivial as for the source property",
        A_REGIME + ["arrays small enough for 32-bit offsets", "the configuration is switched with ViewBase.set_dtype before the arrays of a case are built"], t.s())


def _hash_check(prop, n_quick, n_thorough):
    def run():
        t = Timer()
        res = runner.Result(prop)
        runner.hash_model_stage(res, prop)
        runner.hash_trace_stage(res, prop, n_quick if Q else n_thorough)
        return runner.finish(res,
            "TLC explores every history of the HashTable / Counter machine (spec/abs/HashTable.tla) over the configured key universe (negative keys, "
            "collisions, empty buckets), moduli and initial-value kinds, checking that the bucket / lazy scalar-or-array value mechanism (level M, incl. the "
            "four branches of Counter.count) denotes the level-A dictionary after every step (HashRefines), that membership through the key's own bucket is "
            "exact, that the key set never changes and the split / order lemmas of counting; every reachable state is one history replayed into the real "
            "classes. A seeded driver runs 7-30 step histories with key dtypes int8..uint64, keys up to 2**62, explicit and default moduli, heavy repetition; "
            "TLC walks the dictionary machine along every recorded history, judging every result and every table's content after every step.",
            "case = one history (construction + operations); non-trivial = at least one operation after construction (model stage) / two (trace stage)",
            ["keys are opaque at level A (only equality): 2**62-size keys are logged as four 16-bit limbs", "values are small integers (int64 / float64 value dtypes)",
             "numpy 2.5.3 semantics of % and == on the key dtypes"], t.s())
    return run


def _rl_check(prop, strict, n_quick, n_thorough, text):
    def run():
        t = Timer()
        res = runner.Result(prop)
        mech_stages(res, prop)
        runner.model_stage(res, prop, "rl", "MC_RL", strict=strict, shared=True)
        runner.trace_stage(res, prop, "rl", "drivers_rl", "Trace_RL", n_quick if Q else n_thorough)
        return runner.finish(res, text + RL_BIND,
            "case = (operation, dense content, arguments); non-trivial = every claimed case (each is a distinct run layout / index / operand combination); "
            "cases outside the claim region are enumerated but neither executed nor judged (out_of_claim)",
            A_REGIME + ["run boundaries and run values of every produced run-length object are read from the public starts/ends/values (1-D) or the "
                        "_indices/_values rows (2-D, ragged) to judge the encoding predicates"], t.s())
    return run


RL_BIND = (" Level A is the dense sequence the encoding denotes (spec/abs/RunLength.tla, RunLength2d.tla); the encoding promises are predicates judged on the "
           "observed run boundaries / values of EVERY run-length result: Consistent (they decode to the dense content), Canonical (start at 0, strictly "
           "increasing, end at the length), NoAdjEq where promised, lock-step for ragged results. TLC enumerates ALL dense sequences up to the bound over a small "
           "value set per dtype (hence every run layout and every relative alignment of two operands' run boundaries) x the argument grammar; every claimed case "
           "state is executed against the real classes; seeded drivers add longer arrays, all dtypes and NaN, judged by TLC (Trace_RL).")

ENC_VERDICTS = ("inconsistent-encoding", "not-canonical", "adjacent-equal-runs", "lock-step", "operand-modified")


def c14():
    """round trip + the canonical-form promises on every run-length object the C15 / C16 cases produce"""
    t = Timer()
    res = runner.Result("C14")
    mech_stages(res, "C14")
    runner.model_stage(res, "C14", "rl", "MC_RL", strict=True, shared=True)
    runner.trace_stage(res, "C14", "rl", "drivers_rl", "Trace_RL", 3000 if Q else 30000)
    for other in ("C15", "C16"):
        sub = runner.Result(other)
        runner.model_stage(sub, other, "rl", "MC_RL", strict=False, shared=True)
        runner.trace_stage(sub, other, "rl", "drivers_rl", "Trace_RL", 2000 if Q else 20000)
        sub.bad = [b for b in sub.bad if b.get("verdict") in ENC_VERDICTS]      # value mismatches there are charged to C15 / C16
        for k in ("states", "transitions", "evaluations", "nontrivial", "traces", "unspec"):
            setattr(res, k, getattr(res, k) + getattr(sub, k))
        res.bad += sub.bad
        for k, v in sub.extra.items():
            res.extra.setdefault(k, []).extend(v)
    return runner.finish(res,
        "Encoding round trip: decode(encode(a)) = a element-wise (NaN = NaN), dtype, len/size/shape, numpy conversion; EncoderLemma on the model. In addition the "
        "encoding predicates (Consistent, Canonical, NoAdjEq where promised) are judged on every RunLengthArray produced by the slicing, arithmetic and "
        "concatenation cases of the C15 and C16 instances - also when the operand's own encoding is not run-minimal (built by concatenation / scalar ufunc)." + RL_BIND,
        "case = (operation, dense content, arguments); non-trivial = every claimed case", A_REGIME, t.s())


def _misc_check(prop, mc, n_quick, n_thorough, text, rule, assumptions):
    def run():
        t = Timer()
        res = runner.Result(prop)
        runner.model_stage(res, prop, "misc", mc, strict=False)
        runner.trace_stage(res, prop, "misc", "drivers_rl", "Trace_Misc", n_quick if Q else n_thorough)
        return runner.finish(res, text, rule, assumptions, t.s())
    return run


CHECKS = {
    "C13": _misc_check("C13", "MC_Bit", 4000, 40000,
        "Level A: a packed array denotes its sequence of b-bit digits (opaque values; 32-bit digits as <<hi16, lo16>> pairs, windows compared digit-wise). Level M: "
        "registers as vectors of 64/b digit slots, packing by strided placement, (register, slot) addressing, window assembly from this and the next register; "
        "TLC checks MechEqualsAbs for every b, lengths around every register boundary and three content patterns, and enumerates unpack / get / getlist / "
        "sliding_window cases (every window size, every position) that are executed against the real BitArray; a seeded driver adds random contents, input "
        "dtypes, long arrays, consecutive / descending / scattered position lists and repeated calls on the same object, judged by TLC (Trace_Misc).",
        "case = (operation, b, digits, argument); non-trivial = every case", ["values fit in b bits (the property's precondition)", "positions in range"]),
    "C18": _misc_check("C18", "MC_DC", 4000, 40000,
        "Level A: a table is a record of equally long columns (1-D and 2-D); construction is refused iff lengths differ; indexing / iteration / concatenation / "
        "equality / projection act on every column with the same selector (AlignedLemma on the model); VarLenArray concatenation right-aligns and zero-pads. TLC "
        "enumerates 1..3 fields x lengths x the selector grid x object lists; every state is executed against dynamically created npdataclass classes; a seeded "
        "driver adds longer tables and more objects, judged by TLC (Trace_Misc).",
        "case = (operation, table(s), argument); non-trivial = every claimed case", ["integer columns; field names a, b, c"]),
    "C14": c14,
    "C15": _rl_check("C15", False, 4000, 40000, "Indexing equals indexing the dense array: integers, lists, dense and run-length boolean masks, every slice incl. out-of-range bounds and negative steps, start/stop windows."),
    "C16": _rl_check("C16", True, 4000, 40000, "Arithmetic equals arithmetic on the dense arrays: unary, two run-length operands with unrelated run boundaries, scalars on either side, reductions, histogram (oracle = numpy on the decoded array), concatenation; operands unchanged."),
    "C17": _rl_check("C17", False, 4000, 40000, "2-D and ragged run-length arrays behave as one run-length array per row: constructors, len/shape/size, row / element / column / column-range selection in the claimed region, row and column reductions, ravel, concatenation, ufuncs with scalars and column vectors on either side."),
    "C11": _hash_check("C11", 3000, 40000),
    "C12": _hash_check("C12", 3000, 40000),
    "C19": c19,
    "C06": _heap_check("C06", "C06", 3000, 40000, HEAP_TEXT),
    "C10": _heap_check("C10", "C10", 3000, 40000, HEAP_TEXT),
    "C01": _ragged_check("C01", True, 3000, 30000,
        "TLC enumerates shape x dtype x palette x constructor x read-back of MC_C01 and checks GeometryLemma (rows tile the buffer, "
        "flat<->(row,col) maps are inverse) and SizeMismatchRefused on the model." + BIND,
        "case = (constructor with content, reader); non-trivial = every case (each pairs a distinct shape/content with a distinct read-back)"),
    "C02": _ragged_check("C02", False, 4000, 40000,
        "TLC enumerates every shape x selector pair of MC_C02 (level-A GetItem = Python list semantics), checking CellsInside and IntRefusal." + BIND,
        "case = (array content, row selector, column selector); non-trivial = array has a cell and the selector pair is not (Ellipsis, none)"),
    "C03": _ragged_check("C03", False, 4000, 40000,
        "TLC enumerates shape x non-repeating index expression x value kind of MC_C03 (incl. every boolean ragged mask) and checks FrameLemma, "
        "MismatchRefused and ScalarLemma on the model; the expectation is the WHOLE content after the assignment, so the frame condition is "
        "part of every comparison." + BIND,
        "case = (array, index, value); non-trivial = array has a cell and the index is not the whole array"),
    "C04": _ragged_check("C04", True, 4000, 40000,
        "TLC enumerates shape x operand kind x side x dtype pair x ufunc of MC_C04 (factored) with palette content (8/16-bit wrap, NaN/inf), "
        "checking ShapeLemma, DifferentLengthsRefused and the promotion LatticeLemma; result dtype is compared (claimed); operands are "
        "snapshotted before and after the call (frame)." + BIND,
        "case = (ufunc, operands); non-trivial = the ragged operand has a cell"),
    "C05": _ragged_check("C05", False, 4000, 40000,
        "TLC enumerates shape x dtype x palette x reduction x (axis, keepdims) of MC_C05 and checks EmptyRowIdentity and NoAxisIsReductionOfRows; "
        "max/min/mean/argmax/argmin are judged entry-wise for non-empty rows only." + BIND,
        "case = (reduction, array, axis, keepdims); non-trivial = array has a row"),
    "C07": _ragged_check("C07", False, 4000, 40000,
        "TLC enumerates shape x dtype x palette x scan/reordering of MC_C07 (diff of order 0..3) and checks RowsKept, SortLemma, UniqueLemma, DiffLemma." + BIND,
        "case = (function, array, n); non-trivial = array has a row"),
    "C08": _ragged_check("C08", False, 4000, 40000,
        "TLC enumerates operand tuples, every mask pattern and every in-row start/end vector of MC_C08 and checks ConcatRowsLemma, SubsetLemma, NonzeroLemma." + BIND,
        "case = (function, operands); non-trivial = operands have a row"),
    "C09": _ragged_check("C09", False, 3000, 30000,
        "TLC enumerates shape (>= 1 non-empty row) x dtype x palette x column aggregate of MC_C09 and checks CountsLemma and SumLemma." + BIND,
        "case = (aggregate, array, column); non-trivial = array has a cell"),
}
