"""The registered checks, one function per property."""
import os
from .common import Timer
from . import runner

TIER = os.environ.get("VERIF_TIER", "quick")
Q = TIER == "quick"

A_REGIME = ["numpy 2.5.3 semantics as transcribed in spec/abs/NpVal.tla and PySeq.tla (calibrated by ./check selftest)",
            "32/64-bit integer arithmetic explored in the no-overflow regime; floats restricted to small dyadic rationals",
            "small-scope exhaustive enumeration by TLC plus seeded random cases; larger inputs are sampled"]


def c02():
    t = Timer()
    res = runner.Result("C02")
    runner.model_stage(res, "C02", "ragged", "MC_C02", strict=False)
    runner.trace_stage(res, "C02", "ragged", "drivers_ragged", "Trace_Ragged", 4000 if Q else 40000)
    return runner.finish(res,
        "TLC enumerates every shape x selector pair of MC_C02 (level-A GetItem = Python list semantics), checking the "
        "model invariants CellsInside and IntRefusal; every case state is replayed into RaggedArray.__getitem__ under two "
        "realisations (fresh array; pending view / tuple spelling) and compared; a seeded driver adds larger shapes, all "
        "selector kinds and far-out bounds whose recorded outcomes TLC judges with the same operator.",
        "case = (array content, row selector, column selector); distinct by content hash; non-trivial = array has a cell and the selector pair is not (Ellipsis, none)",
        A_REGIME, t.s())


CHECKS = {"C02": c02}
