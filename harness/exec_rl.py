"""Execute one abstract run-length case (spec/abs/RunLength.tla, RunLength2d.tla) against the real classes and project
the outcome, including the ENCODING (run boundaries and run values) of every run-length result so that the
specification can judge Canonical / NoAdjEq / Consistent / lock-step."""
import copy, warnings
import numpy as np
from .common import NONE, use_repo
from .enc import DT2NP as RAW_NP

use_repo()
warnings.simplefilter("ignore")
from npstructures import RaggedArray, RunLengthArray, RunLength2dArray, RunLengthRaggedArray  # noqa: E402
from . import exec_ragged as ER  # noqa: E402
from .exec_ragged import DT2NP, dec_seq, dec_val, enc_seq, enc_val, out_dt as dt_of  # noqa: E402   (aware of the high-bits realisation)

UF = ER.UFUNCS


def ints(a):
    return [int(x) for x in np.asarray(a).ravel().tolist()]


_WIDE = [False]          # values beyond 32 bits travel as four 16-bit limbs (C14 only: the operation only moves values)


def proj_rl(r):
    dense = np.asarray(r.to_array())
    vals = np.asarray(r.values)
    dt = dt_of(vals.dtype)
    ends = ints(r.ends)
    ev = ints(r.starts) + ([ends[-1]] if ends else [0])
    return ["rl", dt, enc_seq(dense, _WIDE[0], dt_of(dense.dtype)), ev, enc_seq(vals, _WIDE[0], dt)]


def rows_of(x):
    if isinstance(x, RaggedArray):
        return [np.asarray(r) for r in x]
    return [np.asarray(r) for r in np.asarray(x)]


def proj_rlrows(r):
    n = len(r)
    dense = [np.asarray(r[i].to_array()) for i in range(n)]
    idx = rows_of(r._indices)
    vals = rows_of(r._values)
    dt = dt_of(r._values.dtype if not callable(getattr(r._values, "dtype", None)) else r._values.dtype)
    rl = getattr(r, "_row_len", None)
    ev = [ints(i) + ([int(rl)] if rl is not None else []) for i in idx]
    return ["rlrows", dt, [enc_seq(d, False, dt_of(d.dtype)) for d in dense], ev, [enc_seq(v, False, dt) for v in vals]]


def proj(r, hint=None):
    if isinstance(r, RunLengthArray):
        return proj_rl(r)
    if isinstance(r, (RunLength2dArray, RunLengthRaggedArray)):
        return proj_rlrows(r)
    return ER.proj_any(r, False, hint)


def snap(x):
    return repr(_snap(x))          # repr: nan == nan


def _snap(x):
    if isinstance(x, RunLengthArray):
        return ("rl", ints(x._events), np.asarray(x._values).tolist(), str(np.asarray(x._values).dtype))
    if isinstance(x, (RunLength2dArray, RunLengthRaggedArray)):
        a, b = copy.deepcopy(x._indices), copy.deepcopy(x._values)
        return ("rl2", [r.tolist() for r in rows_of(a)], [r.tolist() for r in rows_of(b)], getattr(x, "_row_len", None))
    return ("other", repr(x))


def mk_rl(dt, seq, via="from_array"):
    """Realise the dense sequence as a RunLengthArray.  `via` chooses HOW: directly by encoding, or as the result of library
    operations whose encodings are legitimately NOT run-minimal (concatenation of pieces, a scalar ufunc): an encoding with
    adjacent equal runs must behave exactly like the minimal one."""
    a = dec_seq(seq, dt)
    n = len(a)
    if via in ("ufunc", "astype") and a.dtype.kind in "iu" and a.dtype.itemsize == 8 and n and \
            (int(a.max()) >= 2 ** 31 or int(a.min()) < -2 ** 31):
        via = "concat2"                      # those two constructions go through small-value arithmetic / float64: not value-preserving here
    if via == "from_array" or n < 2:
        return RunLengthArray.from_array(a)
    if via == "pickled":
        import pickle
        return pickle.loads(pickle.dumps(RunLengthArray.from_array(a)))
    if via in ("derived", "derived2"):             # a result of a ufunc on another array: it shares that array's boundary object
        src = RunLengthArray.from_array(a)
        _SOURCES.append((src, snap(src)))
        d = np.positive(src) if a.dtype != bool else np.logical_or(src, False)
        if via == "derived2":
            d = d[...]
        return d
    if via == "concat2":
        k = n // 2
        return np.concatenate([RunLengthArray.from_array(a[:k]), RunLengthArray.from_array(a[k:])])
    if via == "concat3":
        k1, k2 = max(1, n // 3), max(2, (2 * n) // 3)
        if k2 >= n:
            return np.concatenate([RunLengthArray.from_array(a[:1]), RunLengthArray.from_array(a[1:])])
        return np.concatenate([RunLengthArray.from_array(a[:k1]), RunLengthArray.from_array(a[k1:k2]), RunLengthArray.from_array(a[k2:])])
    if via == "pieces":                      # one piece per element: every run has length 1
        return np.concatenate([RunLengthArray.from_array(a[i:i + 1]) for i in range(n)])
    if via == "ufunc":
        if a.dtype.kind in "iu" and a.dtype.itemsize == 8 and np.all(np.abs(a.astype(np.int64)) < 1000):
            b = a * 2 + (np.arange(n) % 2).astype(a.dtype)          # low bit alternates: every element is its own run
            return RunLengthArray.from_array(b) // 2
        if a.dtype == bool:
            return np.logical_not(np.logical_not(RunLengthArray.from_array(a)))
        return np.concatenate([RunLengthArray.from_array(a[:1]), RunLengthArray.from_array(a[1:])])
    if via == "astype":
        if a.dtype.kind in "iu":
            return RunLengthArray.from_array(a.astype(np.float64) + 0.25 * (np.arange(n) % 2)).astype(a.dtype) if np.all(a >= 0) else RunLengthArray.from_array(a)
        return RunLengthArray.from_array(a)
    raise ValueError(via)


RL_VIAS = ["from_array", "concat2", "concat3", "pieces", "ufunc", "astype", "derived"]
_SOURCES = []


def sources_unchanged():
    ok = all(snap(src) == before for src, before in _SOURCES)
    del _SOURCES[:]
    return ok


_VIA = ["from_array"]


def py_operand(o):
    k = o[0]
    if k == "rl":
        return mk_rl(o[1], o[2], _VIA[0])
    if k == "np":
        return DT2NP[o[1]](dec_val(o[2], o[1]))
    if k == "py":
        return bool(o[2]) if o[1] == "pybool" else (int(o[2]) << ER._HI[0]) if o[1] == "pyint" else dec_val(o[2], "f8")
    if k == "col":
        return dec_seq(o[2], o[1]).reshape(-1, 1)
    if k == "obj":
        return mk_obj(o[1])
    raise ValueError(o)


_OBJVIA = ["direct"]
_RAVIA = ["rows"]
_MLAYOUT = ["C"]


def mk_obj(obj):
    """Realise the 2-D / ragged run-length object directly, or as a (still unread) ROW SELECTION of a larger one:
    rows stored reversed and selected with [::-1], an extra leading row dropped with [1:], or a permuting index list."""
    k = obj[0]
    via = _OBJVIA[0]
    if k in ("matrix", "ragged"):
        rows = [dec_seq(r, obj[1]) for r in obj[2]]
        n = len(rows)
        if via == "rev":
            stored, sel = rows[::-1], slice(None, None, -1)
        elif via == "tail":
            stored, sel = [rows[-1]] + rows, slice(1, None)
        elif via == "perm" and n >= 2:
            order = list(range(1, n)) + [0]
            stored, sel = [rows[i] for i in order], [order.index(i) for i in range(n)]
        elif via == "mask":
            stored, sel = rows + [rows[0]], np.array([True] * n + [False])
        else:
            stored, sel = rows, None
        if k == "matrix":
            m = np.array(stored, dtype=DT2NP[obj[1]]).reshape(len(stored), len(stored[0]) if stored else 0)
            if _MLAYOUT[0] == "F":                  # the same matrix in column-major / transposed-view layout
                m = np.asfortranarray(m)
            elif _MLAYOUT[0] == "T":
                m = np.ascontiguousarray(m.T).T
            r = RunLength2dArray.from_array(m)
        else:
            if _RAVIA[0] != "rows":             # the ragged input itself realised as a derived / still pending array (exec_ragged.build)
                enc_rows = obj[2]
                n = len(enc_rows)
                st_enc = enc_rows[::-1] if via == "rev" else [enc_rows[-1]] + enc_rows if via == "tail" else \
                    [enc_rows[i] for i in (list(range(1, n)) + [0])] if (via == "perm" and n >= 2) else enc_rows + [enc_rows[0]] if via == "mask" else enc_rows
                r = RunLengthRaggedArray.from_ragged_array(ER.build([obj[1], st_enc], _RAVIA[0]))
            else:
                r = RunLengthRaggedArray.from_ragged_array(RaggedArray(stored, dtype=DT2NP[obj[1]]))
        return r if sel is None else r[sel]
    if k == "intervals":
        return RunLength2dArray.from_intervals(np.array(obj[1], dtype=int), np.array(obj[2], dtype=int), int(obj[3]))
    raise ValueError(obj)


def py_sel(sel):
    k = sel[0]
    if k == "int":
        return int(sel[1])
    if k == "slice":
        return slice(*[None if v == NONE else int(v) for v in sel[1:4]])
    if k == "list":
        return [int(v) for v in sel[1]]
    if k == "mask":
        return np.array([bool(v) for v in sel[1]], dtype=bool)
    if k == "all":
        return Ellipsis
    raise ValueError(sel)


def op_roundtrip(c, o):
    dt, seq, how = c[1], c[2], c[3]
    a = dec_seq(seq, dt)
    _WIDE[0] = any(isinstance(v, (list, tuple)) for v in seq) and dt[0] in "iu"
    r = RunLengthArray.from_array(a if o.get("input", "array") == "array" or len(seq) == 0 or dt not in ("i8", "f8", "b1") else a.tolist())
    if how == "to_array":
        return ER.proj_any(r.to_array(), _WIDE[0], "flat")
    if how == "asarray":
        return ER.proj_any(np.asarray(r) if o.get("conv", "asarray") == "asarray" else np.array(r), _WIDE[0], "flat")
    if how == "len":
        return ["int", int(len(r))]
    if how == "size":
        return ["int", int(r.size)]
    if how == "shape":
        return ["ints", [int(x) for x in r.shape]]
    if how == "dtype":
        return ["dtype", dt_of(r.dtype)]
    if how == "encoding":
        return proj_rl(r)
    raise ValueError(how)


def op_getitem(c, o):
    dt, seq, idx = c[1], c[2], c[3]
    r = mk_rl(dt, seq, o.get("via", "from_array"))
    before = snap(r)
    k = idx[0]
    idt = o.get("idxdt", "i8")                      # narrow index dtypes only where every position fits
    pos = [int(idx[1])] if k == "int" else [int(i) for i in idx[1]] if k == "list" else []
    if idt != "i8" and not all(np.iinfo(RAW_NP[idt]).min <= p <= np.iinfo(RAW_NP[idt]).max for p in pos):
        idt = "i8"
    sp = o.get("spelling", "plain")                 # x[i] | x[(i,)] | x[..., i]: the same index
    W = (lambda i: (i,)) if sp == "tuple" else (lambda i: (Ellipsis, i)) if sp == "ellipsis" else (lambda i: i)
    if k == "int":
        res = r[W(int(idx[1]))] if not o.get("npint") else r[W(RAW_NP[idt](idx[1]))]
    elif k == "list":
        res = r[W([int(i) for i in idx[1]])] if o.get("listkind", "list") == "list" else r[W(np.array(idx[1], dtype=RAW_NP[idt]))]
    elif k == "list2d":
        m = np.array([[int(v) for v in row] for row in idx[1]], dtype=np.int64)
        lay = o.get("mlayout", "C")                 # the same index matrix in column-major / transposed-view layout
        m = np.asfortranarray(m) if lay == "F" else np.ascontiguousarray(m.T).T if lay == "T" else m
        keep = m.copy()
        res = r[W(m)]
        if not np.array_equal(m, keep):
            return ["mutated", "the caller's index array was changed"]
    elif k == "mask":
        res = r[W(np.array(idx[1], dtype=bool))]
    elif k == "rlmask":
        res = r[W(mk_rl("b1", idx[1], o.get("maskvia", "from_array")))]
    elif k == "slice":
        sl = py_sel(idx)
        if o.get("npbounds"):                    # the same bounds as numpy integers of the narrowest dtype that holds them
            nb = lambda v: v if v is None else (np.int8(v) if -128 <= v <= 127 else np.int16(v) if -32768 <= v <= 32767 else np.int64(v))
            sl = slice(nb(sl.start), nb(sl.stop), nb(sl.step))
        res = r[W(sl)]
    elif k == "windows":
        res = r[np.array(idx[1], dtype=int):np.array(idx[2], dtype=int)]
    elif k == "all":
        res = r[...]
    else:
        raise ValueError(idx)
    out = proj(res, "flat")
    if snap(r) != before:
        return ["mutated", "operand changed"]
    return out


def op_ufunc(c, o):
    f, x, y = c[1], c[2], c[3]
    _VIA[0] = o.get("via", "from_array")
    a = py_operand(x)
    args = [a] if y[0] == "none" else [a, py_operand(y)]
    _VIA[0] = "from_array"
    if o.get("share") and len(args) == 2 and all(isinstance(v, RunLengthArray) for v in args) \
            and len(args[0]._events) == len(args[1]._events) and np.array_equal(args[0]._events, args[1]._events):
        # the second operand as an array DERIVED from the first (what ufunc results are): same boundary object, its own values
        args[1] = RunLengthArray(args[0]._events, args[1]._values)
    before = [snap(v) for v in args]
    how = o.get("how", "ufunc")
    import operator as _op
    PYOP = {"add": _op.add, "subtract": _op.sub, "multiply": _op.mul, "less": _op.lt, "less_equal": _op.le, "greater": _op.gt,
            "greater_equal": _op.ge, "equal": _op.eq, "not_equal": _op.ne, "bitwise_and": _op.and_, "bitwise_or": _op.or_,
            "bitwise_xor": _op.xor, "negative": _op.neg, "absolute": abs, "invert": _op.invert}
    res = PYOP[f](*args) if (how == "operator" and f in PYOP) else UF[f](*args)
    out = proj(res)
    if [snap(v) for v in args] != before:
        return ["mutated", "operand changed"]
    return out


def op_reduce(c, o):
    name, dt, seq = c[1], c[2], c[3]
    r = mk_rl(dt, seq, o.get("via", "from_array"))
    before = snap(r)
    how = o.get("how", "np")
    if name == "max":
        res = r.max()
    elif how == "np":
        res = {"sum": np.sum, "any": np.any, "all": np.all, "mean": np.mean}[name](r)
    else:
        res = getattr(r, name)()
    out = ER.proj_any(res)
    return out if snap(r) == before else ["mutated", "operand changed"]


def op_wsum(c, o):
    """sum of a 64-bit array with values beyond 2**53 (values and result travel as 16-bit limbs)"""
    from .enc import limbs, enc_float
    dt, seq = c[1], c[2]
    r = mk_rl(dt, seq, o.get("via", "from_array"))
    before = snap(r)
    res = np.sum(r) if o.get("how", "np") == "np" else r.sum()
    res = np.asarray(res)[()]
    if isinstance(res, (np.floating, float)):
        # a float result: report the integer it denotes under the array's own dtype (the dtype of aggregates is not claimed; a limb
        # tuple must not meet a rational in the validator)
        out = ["scalar", dt, limbs(int(res))] if np.isfinite(res) else ["raised", "NonFiniteSum"]
    else:
        out = ["scalar", ER.dt_of(res.dtype), limbs(int(res))]
    return out if snap(r) == before else ["mutated", "operand changed"]


def op_encode_runs(c, o):
    """from_array of a long array given run by run; the encoding is reported by its boundaries and values"""
    dt, runs = c[1], c[2]
    a = np.repeat(dec_seq([v for v, _ in runs], dt), [int(n) for _, n in runs])
    r = RunLengthArray.from_array(a)
    if not np.array_equal(np.asarray(r.to_array()), a):
        return ["broken", "the long array does not decode to itself"]
    ends = ints(r.ends)
    return ["rlenc", dt_of(np.asarray(r.values).dtype), int(len(r)), ints(r.starts) + ([ends[-1]] if ends else [0]), enc_seq(np.asarray(r.values), False, dt)]


def op_astype(c, o):
    dt, seq, to = c[1], c[2], c[3]
    r = mk_rl(dt, seq, o.get("via", "from_array"))
    before = snap(r)
    res = r.astype(RAW_NP[to])
    out = proj(res)
    return out if snap(r) == before else ["mutated", "operand changed"]


def op_hist(c, o):
    """np.histogram(rla) must equal np.histogram(decoded array): the oracle is numpy itself, as the property states"""
    dt, seq, bins = c[1], c[2], c[3]
    a = dec_seq(seq, dt)
    r = RunLengthArray.from_array(a)
    kw = {}
    if bins:
        kw["bins"] = int(bins)
    if o.get("density"):
        kw["density"] = True
    if o.get("hrange"):
        kw["range"] = tuple(o["hrange"])
    h1 = np.histogram(r, **kw)
    h2 = np.histogram(a, **kw)
    return ["bool", int(np.allclose(h1[0], h2[0], equal_nan=True) and np.allclose(h1[1], h2[1]))]


def op_concat(c, o):
    rs = [mk_rl(a[0], a[1], o.get("via", "from_array")) for a in c[1]]
    before = [snap(r) for r in rs]
    res = np.concatenate(rs)
    out = proj(res)
    return out if [snap(r) for r in rs] == before else ["mutated", "operand changed"]


def op2_getitem(c, o):
    obj, rsel, csel = c[1], c[2], c[3]
    r = mk_obj(obj)
    before = snap(r)
    idx = py_sel(rsel) if csel[0] == "none" else (py_sel(rsel), py_sel(csel))
    if csel[0] == "none" and o.get("tuple1"):
        idx = (idx,)
    res = r[idx]
    out = proj(res, "flat")
    if isinstance(res, RaggedArray):
        out = ["flat", dt_of(res.dtype), enc_seq(res.ravel(), False, dt_of(res.dtype))]
    return out if snap(r) == before else ["mutated", "operand changed"]


def op2_func(c, o):
    name, obj = c[1], c[2]
    r = mk_obj(obj)
    before = snap(r)
    if name == "to_array":
        res = r.to_array()
        out = ER.proj_any(res)
    elif name == "len":
        out = ["int", int(len(r))]
    elif name == "size":
        out = ["int", int(r.size)]
    elif name == "shape":
        sh = r.shape
        out = ["pair", [int(sh[0])], ints(sh[1])] if isinstance(sh[1], (np.ndarray, RaggedArray)) else ["ints", [int(x) for x in sh]]
    elif name in ("sum", "any", "all", "max", "mean", "argmax"):
        how = o.get("how", "method")
        if how == "np" and name in ("sum", "mean", "max") and isinstance(r, RunLengthRaggedArray):
            res = {"sum": np.sum, "mean": np.mean, "max": np.max}[name](r, axis=-1)
        else:
            res = getattr(r, name)(axis=-1)
        out = ER.proj_any(res, False, "flat")
    elif name in ("wsum", "wcolsum"):                   # 64-bit totals beyond 2**53: values and totals travel as limbs
        from .enc import limbs
        res = r.sum(axis=-1) if name == "wsum" else r.sum(axis=0)
        res = np.asarray(res.to_array() if isinstance(res, RunLengthArray) else res)
        if res.dtype.kind == "f" and not np.all(np.isfinite(res)):
            return ["raised", "NonFiniteSum"]
        out = ["flat", obj[1] if res.dtype.kind == "f" else ER.dt_of(res.dtype), [limbs(int(x)) for x in res.tolist()]]
    elif name == "colsum":
        out = proj(r.sum(axis=0))
    elif name == "colmean":
        out = proj(r.mean(axis=0))
    elif name == "colcounts":
        out = proj(r.col_counts())
    elif name == "colany":
        out = proj(r.any(axis=0))
    elif name == "ravel":
        out = proj(r.ravel())
    else:
        raise ValueError(name)
    return out if snap(r) == before else ["mutated", "operand changed"]


def op2_ufunc(c, o):
    f, x, y = c[1], c[2], c[3]
    a = py_operand(x)
    args = [a] if y[0] == "none" else [a, py_operand(y)]
    before = [snap(v) for v in args]
    res = UF[f](*args)
    out = proj(res)
    return out if [snap(v) for v in args] == before else ["mutated", "operand changed"]


def op2_concat(c, o):
    rs = [mk_obj(x) for x in c[1]]
    res = np.concatenate(rs)
    return proj(res)


OPS = {"rl_roundtrip": op_roundtrip, "rl_getitem": op_getitem, "rl_ufunc": op_ufunc, "rl_reduce": op_reduce, "rl_astype": op_astype, "rl_encode_runs": op_encode_runs, "rl_wsum": op_wsum, "rl_hist": op_hist,
       "rl_concat": op_concat, "rl2_getitem": op2_getitem, "rl2_func": op2_func, "rl2_ufunc": op2_ufunc, "rl2_concat": op2_concat}


def execute(case, opts=None):
    o = opts or {}
    del _SOURCES[:]
    _WIDE[0] = False
    _OBJVIA[0] = o.get("objvia", "direct")
    _RAVIA[0] = o.get("ravia", "rows")
    _MLAYOUT[0] = o.get("mlayout", "C")
    mode = hi_ok(case) if o.get("hi") else None
    ER._HI[0] = int(o["hi"]) if mode else 0
    ER._HI_KEEP[0] = mode == "keep"
    try:
        out = OPS[case[0]](case, o)
        if not sources_unchanged():
            return ["mutated", "an array the operand was derived from changed"]
        return out
    except ER.HiBroken:
        return ["broken", "the result of the scaled run is not a multiple of the scale"]
    except AssertionError:
        return ["raised", "AssertionError"]
    except Exception as e:
        return ["raised", type(e).__name__]
    finally:
        ER._HI[0] = 0
        ER._HI_KEEP[0] = False


# ------------------------------------------------------------------ where the high-bits realisation (exec_ragged) is valid here
def _obj_rows(obj):
    return obj[2] if obj[0] in ("matrix", "ragged") else None


def hi_ok(case):
    try:
        op = case[0]
        N = ("i2", "u2")
        if op == "rl_roundtrip":
            return "relabel" if case[1] in N and case[3] in ("to_array", "asarray", "encoding") and not any(isinstance(v, list) for v in case[2]) else None
        if op == "rl_getitem":
            return "relabel" if case[1] in N else None
        if op in ("rl_ufunc", "rl2_ufunc"):
            f, a, b = case[1], case[2], case[3]
            opds = [x for x in (a, b) if x[0] != "none"]
            dts = set()
            for x in opds:
                if x[0] == "rl":
                    dts.add(x[1])
                elif x[0] == "obj":
                    if _obj_rows(x[1]) is None:
                        return None
                    dts.add(x[1][1])
                elif x[0] in ("np", "col"):
                    dts.add(x[1])
                elif x[0] == "py" and x[1] == "pyint":
                    pass
                else:
                    return None
            if len(dts) != 1 or next(iter(dts)) not in N:
                return None
            dt = next(iter(dts))
            if any(x[0] == "py" and not ER._rng(dt)[0] <= x[2] <= ER._rng(dt)[1] for x in opds):
                return None
            return "relabel" if (f in ER.HI_BIN and len(opds) == 2) or (f in ER.HI_UN and len(opds) == 1) else None
        if op == "rl_reduce":
            name, dt, seq = case[1], case[2], case[3]
            if dt not in N:
                return None
            if name in ("max", "any", "all"):
                return "relabel"
            return "keep" if name in ("sum", "mean") and ER._sums_fit([seq], dt) else None
        if op == "rl_concat":
            return "relabel" if {a[0] for a in case[1]} in ({"i2"}, {"u2"}) else None
        if op == "rl2_getitem":
            obj = case[1]
            return "relabel" if _obj_rows(obj) is not None and obj[1] in N else None
        if op == "rl2_func":
            name, obj = case[1], case[2]
            rows = _obj_rows(obj)
            if rows is None or obj[1] not in N:
                return None
            if name in ("to_array", "max", "any", "all", "colany", "ravel"):
                return "relabel"
            if name in ("sum", "mean"):
                return "keep" if ER._sums_fit(rows, obj[1]) else None
            if name in ("colsum", "colmean"):
                m = max([len(r) for r in rows] or [0])
                return "keep" if ER._sums_fit([[r[j] for r in rows if len(r) > j] for j in range(m)], obj[1]) else None
            return None
        if op == "rl2_concat":
            return "relabel" if all(_obj_rows(x) is not None for x in case[1]) and {x[1] for x in case[1]} in ({"i2"}, {"u2"}) else None
    except Exception:
        return None
    return None
