"""Running TLC / SANY and reading back what they produce."""
import os, re, subprocess, shutil, glob
from .common import SPEC, scratch, NCPU

JAR = "/opt/veriftools/tla/tla2tools.jar:/opt/veriftools/tla/CommunityModules-deps.jar"
LIB = os.pathsep.join(os.path.join(SPEC, d) for d in ("abs", "mech", "mc", "trace"))


class TLCError(Exception):
    """machinery failure (exit 2), never a violation"""


def _java(extra_props=(), heap="4g"):
    tmp = os.path.join(scratch(), "jtmp")          # SANY unpacks its standard modules into java.io.tmpdir and leaves them behind
    os.makedirs(tmp, exist_ok=True)
    return ["java", "-XX:+UseParallelGC", "-Xss64m", f"-Xmx{heap}", f"-Djava.io.tmpdir={tmp}", f"-DTLA-Library={LIB}"] + list(extra_props) + ["-cp", JAR]


def sany(path):
    p = subprocess.run(_java() + ["tla2sany.SANY", path], capture_output=True, text=True, cwd=os.path.dirname(path))
    ok = p.returncode == 0 and "Semantic errors" not in p.stdout and "*** Errors" not in p.stdout and "Fatal" not in p.stdout
    return ok, p.stdout + p.stderr


_summary = re.compile(r"(\d+) states generated, (\d+) distinct states found, (\d+) states left on queue")
_simdone = re.compile(r"generated (\d+) states|(\d+) states checked")


def run_tlc(module, cfg, *, dump=None, workers=NCPU, timeout=900, env=None, coverage=False,
            simulate=None, depth=None, seed=None, deadlock=False, heap="6g", name=None, cwd=None):
    """Run TLC on module (path to .tla) with cfg (path to .cfg).  Returns dict(stdout, states, distinct, ok, violated)."""
    sc = scratch()
    meta = os.path.join(sc, "meta." + (name or os.path.basename(module)) + "." + str(os.getpid()) + "." + str(len(os.listdir(sc))))
    cmd = ["timeout", str(timeout)] + _java(heap=heap) + ["tlc2.TLC", "-metadir", meta, "-noGenerateSpecTE", "-config", cfg]
    if simulate is not None:
        cmd += ["-simulate", simulate]
        if depth:
            cmd += ["-depth", str(depth)]
        if seed is not None:
            cmd += ["-seed", str(seed)]
    if dump:
        cmd += ["-dump", dump]
    if coverage:
        cmd += ["-coverage", "1"]
    if deadlock:
        cmd += ["-deadlock"]
    cmd += ["-workers", str(workers), module]
    e = dict(os.environ)
    e.update(env or {})
    p = subprocess.run(cmd, capture_output=True, text=True, env=e, cwd=cwd or os.path.dirname(module))
    shutil.rmtree(meta, ignore_errors=True)
    out = p.stdout + p.stderr
    res = {"stdout": out, "rc": p.returncode, "states": 0, "distinct": 0}
    m = None
    for m in _summary.finditer(out):
        pass
    if m:
        res["states"], res["distinct"] = int(m.group(1)), int(m.group(2))
    res["violated"] = [l for l in out.splitlines() if ("is violated" in l or "Deadlock reached" in l or "was violated" in l)]
    res["finished"] = "Model checking completed" in out or "Finished in" in out or (simulate is not None and p.returncode in (0, 124))
    if p.returncode == 124 and simulate is None:
        raise TLCError(f"TLC timed out after {timeout}s on {module}")
    hard = [l for l in out.splitlines() if l.startswith("Error:") or "TLC threw an unexpected exception" in l or "***Parse Error***" in l]
    res["errors"] = hard
    return res


def require_clean(res, what):
    """A TLC-level error or a violated model invariant is a defect of the specification/machinery."""
    if res["violated"] or res["errors"] or not res["finished"]:
        tail = "\n".join(res["stdout"].splitlines()[-40:])
        raise TLCError(f"{what}: TLC did not complete cleanly\n{tail}")


def printed_tuples(stdout):
    """Values printed with PrintT(<<...>>): one per line (single worker) -> list of raw strings."""
    out = []
    buf = None
    depth = 0
    for line in stdout.splitlines():
        if buf is None:
            if line.startswith("<<"):
                buf = line
                depth = line.count("<<") - line.count(">>")
            else:
                continue
        else:
            buf += " " + line
            depth += line.count("<<") - line.count(">>")
        if depth <= 0:
            out.append(buf)
            buf = None
    return out
