"""./check setup: parse every specification module with SANY and byte-compile nothing (sources are run in place)."""
import os, glob
from .common import SPEC
from . import tlc


def run():
    bad = 0
    for d in ("abs", "mech", "mc", "trace"):
        for p in sorted(glob.glob(os.path.join(SPEC, d, "*.tla"))):
            if p.endswith("Apa.tla"):
                continue                      # typed Apalache module (parsed by apalache-mc itself)
            ok, out = tlc.sany(p)
            if not ok:
                bad += 1
                print("SANY FAILED:", p)
                print("\n".join(out.splitlines()[-15:]))
    print("setup: specification modules parsed", "with errors" if bad else "cleanly")
    return 2 if bad else 0
