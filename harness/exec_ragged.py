"""Execute one abstract RaggedArray case (see spec/abs/Ragged.tla, `Expect`) against the real library and
project what happened back to an abstract outcome.  Used by both directions of the binding:
TLC-generated cases replayed into the code, and driver-generated cases whose outcomes TLC judges.

The call and the projection of its result form ONE observed step inside one try: the library raises
lazily (an invalid selection may only fail when the result is first read)."""
import os, copy, tempfile, warnings
import numpy as np
from .common import NONE, use_repo
from . import enc as _enc
from .enc import kind

# ------------------------------------------------------------------ the "high bits" realisation
# TLC's integers are 32-bit, so the specification cannot hold the extremes of the 64-bit (32-bit) dtypes.  For operations that
# only move, compare, add, subtract or bit-combine values, an int16 / uint16 case IS such a case: scaling every value by 2**48
# (2**16) maps int16 arithmetic onto the top 16 bits of int64 (int32) arithmetic, wrap-around included
# (Wrap64(k * 2**48) = Wrap16(k) * 2**48).  With opts["hi"] = 48 | 16 the executor builds the operands of an i2 / u2 case in the
# wide dtype, scaled, runs the same call, and maps the result back (exact division, dtype renamed); `hi_ok` says for which cases.
_HI = [0]
_HI_KEEP = [False]          # the result dtype is the wide one by numpy's own rules (sums): only the values are scaled back
HI_NP = {48: {"i2": np.int64, "u2": np.uint64}, 16: {"i2": np.int32, "u2": np.uint32}}


class HiBroken(Exception):
    pass


class _DTMap(dict):
    def __getitem__(self, dt):
        if _HI[0] and dt in ("i2", "u2"):
            return HI_NP[_HI[0]][dt]
        return _enc.DT2NP[dt]


DT2NP = _DTMap()


def dec_seq(q, dt):
    a = _enc.dec_seq(q, dt)
    if _HI[0] and dt in ("i2", "u2"):
        return a.astype(DT2NP[dt]) << _HI[0]
    return a


def dec_val(v, dt):
    x = _enc.dec_val(v, dt)
    if _HI[0] and dt in ("i2", "u2"):
        return int(x) << _HI[0]
    return x


def _unhi(a):
    """map a result of a scaled run back: exact division by the scale (anything else is a wrong result)"""
    a = np.asarray(a)
    sh = _HI[0]
    if not sh or a.dtype == bool:
        return a
    if a.dtype.kind in "iu" and a.dtype.itemsize * 8 > sh:
        if a.size and np.any((a & ((1 << sh) - 1)) != 0):
            raise HiBroken()
        b = a >> sh
        if not _HI_KEEP[0] and a.dtype in (np.dtype(HI_NP[sh]["i2"]), np.dtype(HI_NP[sh]["u2"])):
            b = b.astype(np.int16 if a.dtype.kind == "i" else np.uint16)
        return b
    if a.dtype.kind == "f":
        return a / float(1 << sh)
    return a


def dt_of(npdtype):
    return _enc.dt_of(npdtype)


def enc_seq(a, wide=False, dt=None):
    a = _unhi(a)
    return _enc.enc_seq(a, wide, _enc.dt_of(a.dtype) if _HI[0] else dt)


def enc_val(x, dt, wide=False):
    if _HI[0]:
        if isinstance(x, int) and not isinstance(x, bool) and dt in ("i8", "u8"):
            dt = "u8" if x >= 2 ** 63 else "i8"         # a python int result carries no dtype of its own
        a = _unhi(np.asarray(x, dtype=_enc.DT2NP.get(dt)) if dt in _enc.DT2NP else np.asarray(x))
        return _enc.enc_val(a.item(), _enc.dt_of(a.dtype), wide)
    return _enc.enc_val(x, dt, wide)


def out_dt(npdtype):
    """abstract dtype name of a result (after the mapping back, if any)"""
    if _HI[0]:
        return _enc.dt_of(_unhi(np.zeros(0, dtype=npdtype)).dtype)
    return _enc.dt_of(npdtype)

use_repo()
warnings.simplefilter("ignore")
import npstructures  # noqa: E402
from npstructures import RaggedArray, RaggedShape  # noqa: E402
from npstructures.raggedshape import ViewBase  # noqa: E402
from npstructures.raggedarray.raggedslice import ragged_slice  # noqa: E402
from npstructures.mixin import NPSArray  # noqa: E402

UFUNCS = {n: getattr(np, n) for n in
          ["add", "subtract", "multiply", "maximum", "minimum", "less", "less_equal", "greater", "greater_equal",
           "equal", "not_equal", "logical_and", "logical_or", "logical_xor", "bitwise_and", "bitwise_or",
           "bitwise_xor", "negative", "absolute", "invert", "logical_not", "true_divide", "floor_divide", "sqrt"]}


# ------------------------------------------------------------------ building arrays
def flat_and_lens(arr):
    dt, rows = arr
    flat = [v for r in rows for v in r]
    return dec_seq(flat, dt), [len(r) for r in rows]


SENT = {"b": True, "i": 77, "u": 77, "f": 7.5}


_PRE = [None]


def build(arr, via="flat"):
    a = _build(arr, via)
    if _PRE[0]:
        pre_reads(a, _PRE[0])
    return a


def _build(arr, via="flat"):
    """Realise the abstract array <<dt, rows>> as a RaggedArray.  `via` chooses HOW (C06: a derived array must
    behave like a freshly built one): fresh from rows / flat+lengths, or as a still-pending selection of a
    bigger array whose extra cells are sentinels."""
    dt, rows = arr
    npdt = DT2NP[dt]
    data, lens = flat_and_lens(arr)
    s = np.array(SENT[kind(dt)]).astype(npdt)
    if via == "rows":
        return RaggedArray([dec_seq(r, dt) for r in rows], dtype=npdt)
    if via == "nprows":                        # typed numpy rows and no dtype argument: the element type comes from the rows
        if data.size == 0:
            return RaggedArray([dec_seq(r, dt) for r in rows], dtype=npdt)
        return RaggedArray([dec_seq(r, dt) for r in rows])
    if via == "pylists":                       # plain nested lists; python values carry bool / int64 / float64 only
        if data.size == 0 or dt not in ("b1", "i8", "f8"):
            return RaggedArray([dec_seq(r, dt) for r in rows], dtype=npdt)
        return RaggedArray([dec_seq(r, dt).tolist() for r in rows])
    if via == "flat":
        return RaggedArray(data, lens, dtype=npdt)
    if via == "pickled":                       # an equal array that went through pickle (of a still pending selection)
        import pickle
        big = RaggedArray(np.concatenate([[s], data, [s, s]]).astype(npdt), [1] + lens + [0, 2])
        return pickle.loads(pickle.dumps(big[1:-2]))
    if via == "copied":                        # copy.copy of a pending selection: shares buffer and view with it
        big = RaggedArray([dec_seq(r, dt) for r in rows] + [np.array([s], dtype=npdt)], dtype=npdt)
        return copy.copy(big[:-1])
    if via == "unsafe":                        # safe_mode=False: the library skips its index checks, so only cases with an answer are claimed
        return RaggedArray(data, lens, dtype=npdt, safe_mode=False)
    if via == "shape":
        return RaggedArray(data, RaggedShape(lens))
    if via == "rowview":                       # big = [S] + rows + [S, S];  big[1:-2]
        big = RaggedArray(np.concatenate([[s], data, [s, s]]).astype(npdt), [1] + lens + [0, 2])
        return big[1:-2]
    if via == "colview":                       # every row padded with one sentinel on each side; big[:, 1:-1]
        big = RaggedArray([np.concatenate([[s], dec_seq(r, dt), [s]]).astype(npdt) for r in rows] + [np.array([s, s], dtype=npdt)], dtype=npdt)
        return big[:-1, 1:-1]
    if via == "stepview":                      # cells interleaved with sentinels; big[:, ::2]
        def inter(r):
            out = []
            for v in dec_seq(r, dt).tolist():
                out += [v, s]
            return np.array(out, dtype=npdt)
        big = RaggedArray([inter(r) for r in rows], dtype=npdt)
        return big[:, ::2]
    if via == "revview":                       # rows stored reversed (order and content); big[::-1, ::-1]
        big = RaggedArray([dec_seq(r, dt)[::-1] for r in rows[::-1]], dtype=npdt)
        return big[::-1, ::-1]
    if via == "listview":                      # rows picked by an index list from a shuffled parent
        n = len(rows)
        order = list(range(n))[::-1]
        big = RaggedArray([dec_seq(rows[i], dt) for i in order] + [np.array([s], dtype=npdt)], dtype=npdt)
        return big[[order.index(i) for i in range(n)]]
    if via == "assigned":                      # the result of sort(), whose whole content was then assigned
        if not lens or data.size == 0:
            return RaggedArray(data, lens, dtype=npdt)
        base = RaggedArray(np.sort(data), lens, dtype=npdt).sort(axis=-1)
        base[...] = RaggedArray(data, lens, dtype=npdt)
        return base
    if via == "ufunc":                         # result of an element-wise operation
        a = RaggedArray(data, lens, dtype=npdt)
        return np.positive(a) if kind(dt) != "b" else np.logical_or(a, a)
    raise ValueError(via)


VIAS = ["rows", "flat", "shape", "rowview", "colview", "stepview", "revview", "listview", "ufunc", "assigned", "nprows", "pylists", "unsafe", "pickled", "copied"]


def pre_reads(a, pre):
    """read-only operations performed on the operand before the operation under test: they must change nothing (C10)"""
    for k in pre or ():
        try:
            if k == "sum":
                a.sum(axis=-1)
            elif k == "repr":
                repr(a)
            elif k == "size":
                a.size
            elif k == "unique":
                np.unique(a, axis=-1)
            elif k == "max":
                if len(a) and all(l > 0 for l in a.lengths):
                    a.max(axis=-1)
            elif k == "rowmean":
                if a.size:
                    a.mean(axis=-1)
            elif k == "any":
                a.any(axis=-1)
            elif k == "pad":
                if len(a):
                    a.as_padded_matrix()
            elif k == "colsum":
                if a.size:
                    a.sum(axis=0)
        except Exception:
            pass


# ------------------------------------------------------------------ projecting results
def proj_ragged(r, wide=False, tag="ragged"):
    dt = out_dt(r.dtype)
    rows = [enc_seq(row, wide, dt) for row in r]            # public iteration
    if len(rows) != len(r):
        return ["broken", "len(ra) != number of iterated rows"]
    return [tag, dt, rows]


def proj_any(r, wide=False, hint=None):
    if isinstance(r, RaggedArray):
        return proj_ragged(r, wide)
    if isinstance(r, tuple):
        return ["pair"] + [[int(x) for x in np.asarray(t).ravel().tolist()] for t in r]
    if isinstance(r, np.ndarray):
        dt = out_dt(r.dtype)
        if r.ndim == 0:
            return ["scalar", dt, enc_val(r.item(), dt_of(r.dtype), wide)]
        if r.ndim == 1:
            return [hint or "flat", dt, enc_seq(r, wide, dt)]
        if r.ndim == 2:
            if hint == "col" and r.shape[1] == 1:
                return ["col", dt, enc_seq(r[:, 0], wide, dt)]
            return ["matrix", dt, [enc_seq(row, wide, dt) for row in r]]
        return ["other", str(r.shape)]
    if isinstance(r, (np.generic,)):
        dt = out_dt(r.dtype)
        return ["scalar", dt, enc_val(r.item(), dt_of(r.dtype), wide)]
    if isinstance(r, bool):
        return ["scalar", "b1", int(r)]
    if isinstance(r, int):
        return ["scalar", "i8", enc_val(r, "i8", wide)]
    if isinstance(r, float):
        return ["scalar", "f8", enc_val(r, "f8", wide)]
    if r is None:
        return ["none"]
    if r is NotImplemented:
        return ["raised", "NotImplemented"]
    return ["other", type(r).__name__]


def ints(a):
    return [int(x) for x in np.asarray(a).ravel().tolist()]


# ------------------------------------------------------------------ selectors
def py_sel(sel, dt=None):
    k = sel[0]
    if k == "int":
        return int(sel[1])
    if k == "npint":
        return np.int64(sel[1])
    if k == "slice":
        return slice(*[None if v == NONE else int(v) for v in sel[1:4]])
    if k == "list":
        return [int(v) for v in sel[1]]
    if k == "array":
        return np.array([int(v) for v in sel[1]], dtype=np.int64)
    if k == "mask":
        return np.array([bool(v) for v in sel[1]], dtype=bool)
    if k == "all":
        return Ellipsis
    if k == "rmask":
        return RaggedArray([np.array(r, dtype=bool) for r in sel[1]], dtype=bool) if sel[1] else RaggedArray(np.zeros(0, dtype=bool), [])
    raise ValueError(sel)


def py_index(rsel, csel, spelling="plain"):
    """the same index expression in its alternative spellings: x[r] / x[(r,)] / x[()] , integers as python ints or numpy integers,
    integer lists as lists or ndarrays"""
    def alt(sel):
        v = py_sel(sel)
        if spelling == "numpy":
            if sel[0] == "int":
                return np.int64(v)
            if sel[0] == "list":
                return np.array(v, dtype=np.int64)
            if sel[0] == "mask":
                return [bool(x) for x in v] if False else v
        if spelling == "numpy32" and sel[0] == "int":
            return np.int32(v)
        if spelling == "numpy32" and sel[0] == "list":
            return np.array(v, dtype=np.int32)
        if spelling == "numpy8":                   # the narrowest numpy integer type that holds the index
            nar = lambda x: np.int8(x) if -128 <= x <= 127 else np.int16(x)
            if sel[0] == "int":
                return np.uint8(v) if (0 <= v <= 255 and v % 2) else nar(v)
            if sel[0] == "list":
                return np.array(v, dtype=np.int8 if all(-128 <= x <= 127 for x in v) else np.int16)
        if spelling == "pylist" and sel[0] == "mask":
            return [bool(x) for x in v]            # a boolean mask written as a plain list of bools
        if spelling == "pylist" and sel[0] == "int":
            return v
        return v
    r = alt(rsel)
    if csel[0] == "none":
        if rsel[0] == "all" and spelling == "empty":
            return ()
        return (r,) if spelling == "tuple" else r
    c = alt(csel)
    return (r, c)


# ------------------------------------------------------------------ operations
def op_readback(case, o):
    ctor, reader = case[1], case[2]
    wide = o.get("wide", False)
    k = ctor[0]
    if k == "rows":
        dt = ctor[1]
        a = build([dt, ctor[2]], o.get("via", "rows"))
    elif k == "flat":
        dt = ctor[1]
        data = dec_seq(ctor[2], dt)
        lens = [int(x) for x in ctor[3]]
        lk = o.get("lkind", "list")
        if lk == "i1arr" and not all(l <= 127 for l in lens):
            lk = "array"
        if lk == "boolarr" and not all(l <= 1 for l in lens):
            lk = "array"
        shape = lens if lk == "list" else RaggedShape(lens) if lk == "shape" else np.array(lens, dtype=int) if lk == "array" else \
            np.array(lens, dtype=np.int8) if lk == "i1arr" else np.array(lens, dtype=np.uint16) if lk == "u2arr" else \
            np.array(lens, dtype=bool) if lk == "boolarr" else (len(lens), np.array(lens, dtype=int))   # row lengths in any integer dtype
        a = RaggedArray(data, shape, dtype=DT2NP[dt])
    elif k == "matrix":
        dt = ctor[1]
        rows = ctor[2]
        m = np.array([dec_seq(r, dt) for r in rows], dtype=DT2NP[dt]).reshape(len(rows), len(rows[0]) if rows else 0)
        lay = o.get("layout", "C")                 # the same matrix in another memory layout is the same matrix
        if lay == "F":
            m = np.asfortranarray(m)
        elif lay == "T":
            m = np.ascontiguousarray(m.T).T
        elif lay == "strided":
            big = np.zeros((m.shape[0], 2 * m.shape[1]), dtype=m.dtype)
            big[:, ::2] = m
            m = big[:, ::2]
        a = RaggedArray.from_numpy_array(m)
    else:
        raise ValueError(ctor)
    rk = reader[0]
    if rk == "len":
        return ["int", len(a)]
    if rk == "size":
        return ["int", int(a.size)]
    if rk == "lengths":
        return ["ints", ints(a.lengths)]
    if rk == "shape":
        sh = a.shape
        return ["pair", [int(sh[0])], ints(sh[1])]
    if rk == "dtype":
        return ["dtype", dt_of(a.dtype)]
    if rk == "iter":
        rows = [enc_seq(r, wide, dt_of(a.dtype)) for r in a]
        return ["ragged", out_dt(a.dtype), rows]
    if rk == "tolist":
        l = a.tolist()
        d = dt_of(a.dtype)
        return ["ragged", out_dt(a.dtype), [[enc_val(v, d, wide) for v in r] for r in l]]
    if rk == "copy":
        return proj_ragged(copy.deepcopy(a), wide)
    if rk == "ravel":
        return proj_any(a.ravel(), wide, "flat")
    if rk == "astype":
        b = a.astype(DT2NP[reader[1]])
        out = proj_ragged(b, wide)
        if b.size:                                  # the converted array is an array of its own: writing to it leaves the source alone
            before = snapshot(a)
            b[...] = np.array(SENT[kind(reader[1])]).astype(DT2NP[reader[1]])
            if not same_snap(before, snapshot(a)):
                return ["mutated", "writing to the converted array changed the source"]
        return out
    if rk == "to_numpy":
        return proj_any(a.to_numpy_array(), wide)
    if rk == "save_load":
        d = tempfile.mkdtemp(prefix="verif.sl.", dir=o.get("scratch", "/tmp"))
        try:
            fn = os.path.join(d, "ra.npz")
            a.save(fn)
            b = RaggedArray.load(fn)
            return proj_ragged(b, wide)
        finally:
            import shutil
            shutil.rmtree(d, ignore_errors=True)
    sh = a._shape if not o.get("fresh_shape") else RaggedShape(ints(a.lengths))
    a.ravel()
    sh = a._shape
    if rk == "starts":
        return ["ints", ints(sh.starts)]
    if rk == "ends":
        return ["ints", ints(sh.ends)]
    if rk == "shape_size":
        return ["int", int(sh.size)]
    if rk == "index_array":
        return ["ints", ints(sh.index_array())]
    if rk == "ravel_mi":
        return ["ints", ints(sh.ravel_multi_index((np.array(reader[1], dtype=int), np.array(reader[2], dtype=int))))]
    if rk == "unravel":
        r, c = sh.unravel_multi_index(np.array(reader[1], dtype=int))
        return ["pair", ints(r), ints(c)]
    raise ValueError(reader)


def op_getitem(case, o):
    arr, rsel, csel = case[1], case[2], case[3]
    a = build(arr, o.get("via", "flat"))
    before = snapshot(a) if o.get("via", "flat") != "flat" else None
    idx = py_index(rsel, csel, o.get("spelling", "plain"))
    r = a[idx]
    out = proj_any(r, o.get("wide", False))
    if out[0] == "flat" and rsel[0] in ("int", "npint") and csel[0] != "int":
        out[0] = "row"
    if before is not None and not same_snap(before, snapshot(a)):          # C10: indexing changes nothing
        return ["mutated", "indexing changed the indexed array"]
    return out


def py_value(val, dt, o):
    k = val[0]
    if k == "scalar":
        v = dec_val(val[1], dt)
        return DT2NP[dt](v) if o.get("npscalar") else v
    if k == "ragged":
        return RaggedArray([dec_seq(r, dt) for r in val[1]], dtype=DT2NP[dt]) if val[1] else RaggedArray(np.zeros(0, DT2NP[dt]), [])
    if k == "col":
        c = dec_seq(val[1], dt).reshape(-1, 1)
        return c.tolist() if o.get("collist") else c
    if k == "flat":
        return dec_seq(val[1], dt)
    raise ValueError(val)


_BIG = {}


def big_selfassign(n, kind, dt):
    """a big array (n rows of 3 cells, values 0 .. 3n-1) assigned to a permutation of itself, once per process"""
    key = (n, kind, dt)
    if key not in _BIG:
        if len(_BIG) > 4:
            _BIG.clear()
        a = RaggedArray(np.arange(3 * n).astype(_enc.DT2NP[dt]), np.full(n, 3, dtype=np.int64))
        if kind == "rowrev":
            a[::-1] = a
        elif kind == "colrev":
            a[:, ::-1] = a
        else:
            raise ValueError(kind)
        _BIG[key] = a
    return _BIG[key]


def op_setitem_embedded(case, o):
    """The case is the restriction of a self-aliasing assignment on a big array (more than 65 536 cells) to a set of rows that the
    assignment maps onto itself: rows {i, n-1-i} of `ra[::-1] = ra`, row {i} of `ra[:, ::-1] = ra`.  TLC judges the small case; the
    observed rows come from the big execution."""
    e = o["embed"]
    n, kind, pos = int(e["n"]), e["kind"], [int(p) for p in e["pos"]]
    dt = case[1][0]
    want = [[3 * p, 3 * p + 1, 3 * p + 2] for p in pos]
    if [[int(v) for v in r] for r in case[1][1]] != want:
        raise ValueError("embedded rows do not match the big array")
    a = big_selfassign(n, kind, dt)
    return ["array", dt_of(a.dtype), [enc_seq(a[p], False, dt) for p in pos]]


def op_setitem(case, o):
    if o.get("embed"):
        return op_setitem_embedded(case, o)
    arr, rsel, csel, val = case[1], case[2], case[3], case[4]
    a = build(arr, o.get("via", "flat"))
    idx = py_index(rsel, csel, o.get("spelling", "plain"))
    a[idx] = py_value(val, arr[0], o)
    return proj_ragged(a, o.get("wide", False), "array")


def py_operand(opd, o):
    k = opd[0]
    if k == "ra":
        return build(opd[1], o.get("via", "flat"))
    if k == "np":
        if o.get("zerod"):                         # the same typed scalar as a 0-d array
            return np.array(dec_val(opd[2], opd[1]), dtype=DT2NP[opd[1]])
        return DT2NP[opd[1]](dec_val(opd[2], opd[1]))
    if k == "py":
        pk = opd[1]
        return bool(opd[2]) if pk == "pybool" else (int(opd[2]) << _HI[0]) if pk == "pyint" else dec_val(opd[2], "f8")
    if k == "col":
        return dec_seq(opd[2], opd[1]).reshape(-1, 1)
    if k == "collist":
        pk = opd[1]
        return [[bool(v) if pk == "pybool" else int(v) if pk == "pyint" else dec_val(v, "f8")] for v in opd[2]]
    raise ValueError(opd)


def snapshot(x):
    if isinstance(x, RaggedArray) and False:
        pass
    if isinstance(x, RaggedArray):
        y = copy.deepcopy(x)
        return ("ra", str(y.dtype), [r.tolist() for r in y])
    if isinstance(x, np.ndarray):
        return ("np", str(x.dtype), x.tolist())
    return ("py", repr(x))


def same_snap(s1, s2):
    return repr(s1) == repr(s2)          # repr: nan == nan


def op_ufunc(case, o):
    f, a, b = case[1], case[2], case[3]
    uf = UFUNCS[f]
    x = py_operand(a, o)
    before = [snapshot(x)]
    args = [x]
    if b[0] != "none":
        y = py_operand(b, o)
        before.append(snapshot(y))
        args.append(y)
    how = o.get("how", "ufunc")
    OPS = {"add": "__add__", "subtract": "__sub__", "multiply": "__mul__", "less": "__lt__", "less_equal": "__le__",
           "greater": "__gt__", "greater_equal": "__ge__", "equal": "__eq__", "not_equal": "__ne__",
           "bitwise_and": "__and__", "bitwise_or": "__or__", "bitwise_xor": "__xor__", "negative": "__neg__",
           "absolute": "__abs__", "invert": "__invert__"}
    import operator as _op
    PYOP = {"add": _op.add, "subtract": _op.sub, "multiply": _op.mul, "less": _op.lt, "less_equal": _op.le,
            "greater": _op.gt, "greater_equal": _op.ge, "equal": _op.eq, "not_equal": _op.ne, "bitwise_and": _op.and_,
            "bitwise_or": _op.or_, "bitwise_xor": _op.xor, "negative": _op.neg, "absolute": abs, "invert": _op.invert}
    if how == "operator" and f in PYOP and not (len(args) == 2 and isinstance(args[0], (list, np.ndarray))):
        r = PYOP[f](*args)
    else:
        r = uf(*args)
    out = proj_any(r, o.get("wide", False))
    after = [snapshot(v) for v in args]
    if not all(same_snap(p, q) for p, q in zip(before, after)):
        return ["mutated", "an operand changed"]
    return out


RED_NP = {"sum": np.sum, "prod": np.prod, "any": np.any, "all": np.all, "max": np.max, "min": np.min, "mean": np.mean,
          "argmax": np.argmax, "argmin": np.argmin}


def op_reduce(case, o):
    name, arr, axis, keep = case[1], case[2], case[3], bool(case[4])
    a = build(arr, o.get("via", "flat"))
    snap = snapshot(a) if o.get("frame", True) else None
    kw = {}
    if axis != NONE:
        kw["axis"] = int(axis)
    if keep:
        kw["keepdims"] = True
    kindtag, name = name[0], name[1]
    if kindtag == "r":                              # ["r", f]: np.<f>.reduce
        kw.setdefault("axis", -1)
        kw2 = {"axis": kw["axis"]}
        r = UFUNCS[name].reduce(a, **kw2)
        if keep:
            return ["unsupported"]
    elif o.get("how", "method") == "np":
        r = RED_NP[name](a, **kw)
    elif o.get("how") == "positional" and "axis" in kw and not keep:
        r = getattr(a, name)(kw["axis"])                     # ra.sum(-1)
    else:
        r = getattr(a, name)(**kw)
    out = proj_any(r, False, "col" if keep else "flat")
    if snap is not None and not same_snap(snap, snapshot(a)):
        return ["mutated", "operand changed"]
    return out


def op_scan(case, o):
    name, arr, n = case[1], case[2], case[3]
    a = build(arr, o.get("via", "flat"))
    snap = snapshot(a)
    ax = 1 if o.get("axis1") else -1                # the row axis under its other name
    if name == "cumsum":
        r = np.cumsum(a, axis=ax) if o.get("how", "np") == "np" else a.cumsum(axis=ax)
    elif name.startswith("acc_"):
        r = UFUNCS[name[4:]].accumulate(a, axis=ax)
    elif name == "sort":
        r = a.sort(axis=ax)                      # np.sort is not among the functions the library implements
    elif name == "unique":
        r = np.unique(a, axis=ax)
    elif name == "unique_counts":
        u, c = np.unique(a, axis=ax, return_counts=True)
        pu, pc = proj_ragged(u), proj_ragged(c)
        out = ["ragged2", pu[1], pu[2], pc[2]]
        return out if same_snap(snap, snapshot(a)) else ["mutated", "operand changed"]
    elif name == "diff":
        if int(n) == 1 and o.get("defaults"):        # np.diff(a): n and axis left to their defaults
            r = np.diff(a)
        else:
            r = np.diff(a, n=int(n), axis=ax)
    else:
        raise ValueError(name)
    out = proj_any(r)
    return out if same_snap(snap, snapshot(a)) else ["mutated", "operand changed"]


def op_concat(case, o):
    arrs, axis = case[1], int(case[2])
    vias = o.get("vias") or [o.get("via", "flat")] * len(arrs)
    xs = [build(a, v) for a, v in zip(arrs, vias)]
    r = np.concatenate(xs, axis=axis) if axis != 0 or o.get("explicit_axis") else np.concatenate(xs)
    return proj_any(r, o.get("wide", False))


def op_like(case, o):
    kindname, arr, dt = case[1], case[2], case[3]
    a = build(arr, o.get("via", "flat"))
    f = {"zeros": np.zeros_like, "ones": np.ones_like, "empty": np.empty_like}[kindname]
    r = f(a) if dt == "same" else f(a, dtype=DT2NP[dt])
    return proj_any(r)


def op_pad(case, o):
    arr, side, fill = case[1], case[2], case[3]
    a = build(arr, o.get("via", "flat"))
    r = a.as_padded_matrix(fill_value=dec_val(fill, arr[0]), side=side)
    return proj_any(r)


def op_nonzero(case, o):
    a = build(case[1], o.get("via", "flat"))
    r = np.nonzero(a) if o.get("how", "np") == "np" else a.nonzero()
    return proj_any(r)


def op_where(case, o):
    mask, x, y = case[1], case[2], case[3]
    m = build(mask, o.get("via", "flat"))
    xx = build(x, o.get("via2", "flat"))
    yy = build(y[1], "flat") if y[0] == "ra" else dec_val(y[1], x[0])
    return proj_any(np.where(m, xx, yy))


def op_subset(case, o):
    arr, mask = case[1], case[2]
    a = build(arr, o.get("via", "flat"))
    m = build(mask, o.get("via2", "flat"))
    return proj_any(a.subset(m))


def op_ragged_slice(case, o):
    inp, starts, ends = case[1], case[2], case[3]
    k = inp[0]
    if k == "ra":
        x = build(inp[1], o.get("via", "flat"))
    elif k == "1d":
        x = dec_seq(inp[2], inp[1])
    else:
        rows = inp[2]
        x = np.array([dec_seq(r, inp[1]) for r in rows], dtype=DT2NP[inp[1]]).reshape(len(rows), len(rows[0]) if rows else 0)
        lay = o.get("layout", "C")                 # the same matrix in another memory layout is the same matrix
        if lay == "F":
            x = np.asfortranarray(x)
        elif lay == "T":
            x = np.ascontiguousarray(x.T).T
        elif lay == "strided":
            big = np.zeros((x.shape[0], 2 * x.shape[1]), dtype=x.dtype)
            big[:, ::2] = x
            x = big[:, ::2]
    s = None if starts[0] == "none" else np.array(starts[1], dtype=int)
    e = None if ends[0] == "none" else np.array(ends[1], dtype=int)
    if o.get("how") == "nps" and k != "ra" and s is not None and e is not None:
        r = x.view(NPSArray)[s:e]
    else:
        r = ragged_slice(x, s, e)
    return proj_any(r)


def op_col(case, o):
    name, arr, j = case[1], case[2], case[3]
    a = build(arr, o.get("via", "flat"))
    if name == "colsum":
        r = a.sum(axis=0) if o.get("how", "method") == "method" else np.sum(a, axis=0)
    elif name == "colmean":
        r = a.mean(axis=0) if o.get("how", "method") == "method" else np.mean(a, axis=0)
    elif name == "wcolsum":                          # values and totals beyond 2**53 travel as limbs
        r = np.asarray(a.sum(axis=0) if o.get("how", "method") == "method" else np.sum(a, axis=0))
        if r.dtype.kind == "f":                      # a float total: report the integers it denotes (dtype of totals is not claimed)
            if not np.all(np.isfinite(r)):
                return ["raised", "NonFiniteSum"]
            return ["flat", arr[0], [_enc.limbs(int(x)) for x in r.tolist()]]
        return ["flat", dt_of(r.dtype), [_enc.limbs(int(x)) for x in r.tolist()]]
    elif name == "colcounts":
        r = a.col_counts()
    elif name == "colvalues":
        r = a.get_column_values(int(j))
    else:
        raise ValueError(name)
    return proj_any(r)


def op_pairs(case, o):
    """ra[rows, cols] with two equally long integer sequences (lists or ndarrays): read or write; the caller's index arrays must not change"""
    op, arr, rows, cols = case[0], case[1], case[2], case[3]
    a = build(arr, o.get("via", "flat"))
    asarr = o.get("listkind", "list") == "array"
    R = np.array([int(x) for x in rows], dtype=np.int64) if asarr else [int(x) for x in rows]
    C = np.array([int(x) for x in cols], dtype=np.int64) if asarr else [int(x) for x in cols]
    keep = (list(R), list(C)) if not asarr else (R.copy(), C.copy())
    if op == "getpairs":
        snap = snapshot(a)
        r = a[R, C]
        out = proj_any(r, o.get("wide", False))
        if not same_snap(snap, snapshot(a)):
            return ["mutated", "indexing changed the indexed array"]
    else:
        a[R, C] = py_value(case[4], arr[0], o)
        out = proj_ragged(a, o.get("wide", False), "array")
    if (asarr and not (np.array_equal(R, keep[0]) and np.array_equal(C, keep[1]))) or (not asarr and (R, C) != keep):
        return ["mutated", "the caller's index sequences were changed"]
    return out


def op_wcolsum_rep(case, o):
    """column totals of n copies of one row (a tall array in compressed form)"""
    dt, row, n = case[1], case[2], int(case[3])
    vals = _enc.dec_seq(row, dt)
    a = RaggedArray(np.tile(vals, n), np.full(n, len(vals), dtype=np.int64), dtype=_enc.DT2NP[dt])
    r = np.asarray(a.sum(axis=0) if o.get("how", "method") == "method" else np.sum(a, axis=0))
    if r.dtype.kind == "f":
        if not np.all(np.isfinite(r)):
            return ["raised", "NonFiniteSum"]
        return ["flat", "i8" if dt[0] == "i" else "u8", [_enc.limbs(int(x)) for x in r.tolist()]]
    return ["flat", dt_of(r.dtype), [_enc.limbs(int(x)) for x in r.tolist()]]


def op_wreduce(case, o):
    name, arr = case[1], case[2]
    a = build(arr, o.get("via", "flat"))
    snap = snapshot(a)
    L = _enc.limbs
    if name == "sum":
        r = np.asarray(a.sum(axis=-1) if o.get("how", "method") != "np" else np.sum(a, axis=-1))
        if r.dtype.kind == "f":
            out = ["flat", arr[0], [L(int(x)) for x in r.tolist()]] if np.all(np.isfinite(r)) else ["raised", "NonFiniteSum"]
        else:
            out = ["flat", dt_of(r.dtype), [L(int(x)) for x in r.tolist()]]
    elif name == "total":
        r = np.asarray(a.sum() if o.get("how", "method") != "np" else np.sum(a))[()]
        out = ["scalar", arr[0] if isinstance(r, (float, np.floating)) else dt_of(np.asarray(r).dtype), L(int(r))]
    elif name == "cumsum":
        r = np.cumsum(a, axis=-1) if o.get("how", "np") == "np" else a.cumsum(axis=-1)
        out = ["ragged", dt_of(r.dtype), [[L(int(x)) for x in np.asarray(row).tolist()] for row in r]]
    elif name in ("sort", "unique"):
        r = a.sort(axis=-1) if name == "sort" else np.unique(a, axis=-1)
        out = ["ragged", dt_of(r.dtype), [[L(int(x)) for x in np.asarray(row).tolist()] for row in r]]
    else:
        raise ValueError(name)
    return out if same_snap(snap, snapshot(a)) else ["mutated", "operand changed"]


OPS = {"wcolsum_rep": op_wcolsum_rep, "wreduce": op_wreduce, "getpairs": op_pairs, "setpairs": op_pairs, "readback": op_readback, "getitem": op_getitem, "setitem": op_setitem, "ufunc": op_ufunc, "reduce": op_reduce,
       "scan": op_scan, "concat": op_concat, "like": op_like, "pad": op_pad, "nonzero": op_nonzero, "where": op_where,
       "subset": op_subset, "ragged_slice": op_ragged_slice, "col": op_col}


def execute(case, opts=None):
    o = opts or {}
    w = o.get("width")
    if w:
        ViewBase.set_dtype(np.int32 if w == 32 else np.int64)
    _PRE[0] = o.get("pre")
    mode = hi_ok(case) if o.get("hi") else None
    _HI[0] = int(o["hi"]) if mode else 0
    _HI_KEEP[0] = mode == "keep"
    try:
        return OPS[case[0]](case, o)
    except HiBroken:
        return ["broken", "the result of the scaled run is not a multiple of the scale"]
    except AssertionError as e:
        return ["raised", "AssertionError"]
    except Exception as e:                                  # any exception type counts as "refused"
        return ["raised", type(e).__name__]
    finally:
        _HI[0] = 0
        _HI_KEEP[0] = False
        if w:
            ViewBase.set_dtype(np.int64)


# ------------------------------------------------------------------ where the high-bits realisation is valid
HI_BIN = {"add", "subtract", "maximum", "minimum", "less", "less_equal", "greater", "greater_equal", "equal", "not_equal",
          "logical_and", "logical_or", "logical_xor", "bitwise_and", "bitwise_or", "bitwise_xor"}
HI_UN = {"negative", "absolute", "logical_not"}


def _rng(dt):
    return (-32768, 32767) if dt == "i2" else (0, 65535)


def _sums_fit(rows, dt, prefixes=False):
    lo, hi = _rng(dt)
    for r in rows:
        t = 0
        for v in r:
            t += v
            if prefixes and not lo <= t <= hi:
                return False
        if not lo <= t <= hi:
            return False
    return True


def hi_ok(case):
    """None: not applicable; "relabel": results of the wide dtype are the case's dtype; "keep": results are wide by numpy's own
    promotion (sums), only their values are scaled back."""
    try:
        op = case[0]
        if op == "readback":
            ctor, reader = case[1], case[2]
            return "relabel" if ctor[1] in ("i2", "u2") and reader[0] in ("iter", "tolist", "copy", "ravel", "to_numpy", "save_load") else None
        if op in ("getitem", "setitem"):
            return "relabel" if case[1][0] in ("i2", "u2") else None
        if op == "ufunc":
            f, a, b = case[1], case[2], case[3]
            opds = [x for x in (a, b) if x[0] != "none"]
            dts = set()
            for x in opds:
                if x[0] == "ra":
                    dts.add(x[1][0])
                elif x[0] in ("np", "col"):
                    dts.add(x[1])
                elif x[0] == "py" and x[1] == "pyint":
                    pass
                else:
                    return None
            if len(dts) != 1 or next(iter(dts)) not in ("i2", "u2"):
                return None
            dt = next(iter(dts))
            if any(x[0] == "py" and not _rng(dt)[0] <= x[2] <= _rng(dt)[1] for x in opds):
                return None
            return "relabel" if (f in HI_BIN and len(opds) == 2) or (f in HI_UN and len(opds) == 1) else None
        if op == "reduce":
            name, arr, axis = case[1], case[2], case[3]
            dt = arr[0]
            if dt not in ("i2", "u2"):
                return None
            flat = [[v for r in arr[1] for v in r]]
            if name[0] == "n" and name[1] in ("max", "min", "any", "all"):
                return "relabel"
            if (name[0] == "n" and name[1] in ("sum", "mean")) or (name[0] == "r" and name[1] == "add"):
                return "keep" if _sums_fit(arr[1], dt) and _sums_fit(flat, dt) else None
            if name[0] == "r" and name[1] in ("maximum", "minimum", "bitwise_or", "bitwise_xor", "logical_or", "logical_and"):
                return "relabel"
            return None
        if op == "scan":
            name, arr = case[1], case[2]
            if arr[0] not in ("i2", "u2"):
                return None
            if name in ("sort", "unique", "diff", "acc_subtract", "acc_bitwise_xor"):
                return "relabel"
            if name in ("cumsum", "acc_add"):
                return "keep" if _sums_fit(arr[1], arr[0], prefixes=True) else None
            return None
        if op == "concat":
            return "relabel" if {a[0] for a in case[1]} in ({"i2"}, {"u2"}) else None
        if op == "pad":
            return "relabel" if case[1][0] in ("i2", "u2") else None
        if op == "where":
            x, y = case[2], case[3]
            return "relabel" if x[0] in ("i2", "u2") and (y[0] != "ra" or y[1][0] == x[0]) else None
        if op == "subset":
            return "relabel" if case[1][0] in ("i2", "u2") else None
        if op == "ragged_slice":
            inp = case[1]
            return "relabel" if (inp[1][0] if inp[0] == "ra" else inp[1]) in ("i2", "u2") else None
        if op == "col":
            name, arr = case[1], case[2]
            if arr[0] not in ("i2", "u2"):
                return None
            if name == "colvalues":
                return "relabel"
            if name in ("colsum", "colmean"):
                m = max([len(r) for r in arr[1]] or [0])
                cols = [[r[j] for r in arr[1] if len(r) > j] for j in range(m)]
                return "keep" if _sums_fit(cols, arr[0]) else None
            return None
    except Exception:
        return None
    return None
