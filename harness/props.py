"""Per-property knowledge of the harness: how an abstract case is realised on the implementation side
(variants), and which cases count as non-trivial in the evidence."""
import os, zlib, json
from .common import NONE

TIER = os.environ.get("VERIF_TIER", "quick")

RVIAS = ["rows", "flat", "shape", "rowview", "colview", "stepview", "revview", "listview", "ufunc", "assigned", "nprows", "pylists", "unsafe", "pickled", "copied"]


def safe_opts(opts):
    """for comparisons BETWEEN two runs (C19): safe_mode=False arrays answer out-of-range indices with whatever memory holds"""
    o = dict(opts or {})
    for k in ("via", "via2", "via0"):
        if o.get(k) == "unsafe":
            o[k] = "flat"
    if o.get("vias"):
        o["vias"] = ["flat" if v == "unsafe" else v for v in o["vias"]]
    return o


def unclaimed_refusal(opts, verdict):
    """arrays built with safe_mode=False promise no refusals: a case that level A refuses has no claimed outcome there"""
    return verdict == "not-refused" and bool(opts) and "unsafe" in (opts.get("via"), opts.get("via2"), opts.get("via0")) + tuple(opts.get("vias") or ())
SPELLINGS = ["plain", "tuple", "empty", "numpy", "numpy32", "pylist", "numpy8"]
PRES = [None, ["sum"], ["repr"], ["unique"], ["max"], ["rowmean"], ["size", "sum"], ["any", "pad"], ["colsum"], ["sum", "unique"]]


def _h(case, salt=0):
    return zlib.crc32(json.dumps(case, sort_keys=True, default=str).encode()) + salt


HI_OPS = ("readback", "getitem", "setitem", "ufunc", "reduce", "scan", "concat", "pad", "where", "subset", "ragged_slice", "col",
          "rl_roundtrip", "rl_getitem", "rl_ufunc", "rl_reduce", "rl_concat", "rl2_getitem", "rl2_func", "rl2_ufunc", "rl2_concat")


def variants(prop, case):
    """Implementation-side realisations of one abstract case.  Level A does not distinguish them (C06)."""
    out = _variants(prop, case)
    if out and out[0].get("via") == "flat" and len(out) > 1 and (_h(case, 11) & 1):
        # the "freshly built" realisation alternates between the library's two constructors: flat buffer + lengths, and a list of rows
        out = [dict(out[0], via="rows")] + out[1:]
    if case[0] in HI_OPS:
        js = json.dumps(case)
        if '"i2"' in js or '"u2"' in js:
            # the same case in the top 16 bits of the 64-bit / 32-bit dtypes (harness/exec_ragged.py, hi_ok decides validity)
            out = out + [dict(out[-1], hi=[48, 16][_h(case, 5) % 2])]
    return out


def _variants(prop, case):
    op = case[0]
    h = _h(case)
    if op == "readback":
        ctor = case[1]
        if ctor[0] == "rows":
            return [{"via": RVIAS[h % len(RVIAS)]}] if TIER == "quick" else [{"via": "rows"}, {"via": RVIAS[h % len(RVIAS)]}]
        if ctor[0] == "flat":
            return [{"lkind": ["list", "array", "tuple", "i1arr", "u2arr", "boolarr"][h % 6]}]     # a RaggedShape object is not "row lengths": see DESIGN 6.3
        return [{"layout": ["C", "F", "T", "strided"][h % 4]}]
    if op in ("getitem", "setitem"):
        sp = SPELLINGS[h % len(SPELLINGS)]
        v = RVIAS[(h // 3) % len(RVIAS)]
        out = [{"via": "flat", "spelling": "plain"}, {"via": v, "spelling": sp, "pre": PRES[(h // 64) % len(PRES)]}]
        if op == "setitem":
            out[1]["npscalar"] = bool(h & 8)
            out[1]["collist"] = bool(h & 16)
        return out
    if op == "ufunc":
        return [{"via": "flat", "how": "ufunc"}, {"via": RVIAS[h % len(RVIAS)], "how": ["ufunc", "operator"][(h // 16) % 2], "pre": PRES[(h // 64) % len(PRES)], "zerod": bool(h & 128)}]
    if op == "reduce":
        return [{"via": "flat", "how": "method"}, {"via": RVIAS[h % len(RVIAS)], "how": ["method", "np", "positional"][(h // 16) % 3], "pre": PRES[(h // 64) % len(PRES)]}]
    if op in ("scan", "nonzero", "col"):
        return [{"via": "flat"}, {"via": RVIAS[h % len(RVIAS)], "how": ["method", "np"][(h // 16) % 2], "pre": PRES[(h // 64) % len(PRES)], "axis1": bool(h & 32), "defaults": bool(h & 8)}]
    if op in ("like", "pad"):
        return [{"via": "flat"}, {"via": RVIAS[h % len(RVIAS)], "pre": PRES[(h // 64) % len(PRES)]}]
    if op == "concat":
        n = len(case[1])
        return [{"via": "flat"}, {"vias": [RVIAS[(h + 3 * i) % len(RVIAS)] for i in range(n)], "explicit_axis": bool(h & 32)}]
    if op in ("where", "subset"):
        return [{"via": "flat", "via2": "flat"}, {"via": RVIAS[h % len(RVIAS)], "via2": RVIAS[(h // 16) % len(RVIAS)]}]
    if op == "ragged_slice":
        return [{"via": "flat"}, {"via": RVIAS[h % len(RVIAS)], "how": ["fn", "nps"][(h // 16) % 2], "layout": ["C", "F", "T", "strided"][(h // 32) % 4]}]
    if op.startswith("bit_"):
        return [{"indt": ["u8", "u4", "u2", "u1", "i8", "i4"][h % 6], "npidx": bool(h & 8), "listkind": ["list", "array"][(h // 16) % 2], "again": bool(h & 64),
                 "repack": bool(h & 128), "pre_w": [0, 1, 2, 3][(h // 256) % 4], "npw": [None, "i8", "i4", "u1"][(h // 1024) % 4],
                 "idxdt": ["i8", "u1", "i2", "u2"][(h // 4096) % 4], "pickled": bool(h & 16384)}]
    if op.startswith("dc_"):
        x = {"listmask": bool(h & 1), "npint": bool(h & 2), "firstdt": [None, "u1", "i2"][(h // 4) % 3], "layout": ["C", "F", "T", "mixed"][(h // 16) % 4]}
        return [dict(x), dict(x, inherit=True)] if len(case[1][0] if op != "dc_concat" else case[1][0][0]) > 1 else [x]
    if op == "rl_roundtrip":
        return [{"input": ["array", "list"][h % 2], "conv": ["asarray", "array"][(h // 2) % 2]}]
    RLV = ["from_array", "concat2", "concat3", "pieces", "ufunc", "astype", "derived", "derived2"]
    if op == "rl_getitem":
        idt = ["i8", "i1", "u1", "i2"][(h // 256) % 4]
        return [{"npint": bool(h & 1), "listkind": ["list", "array"][(h // 2) % 2], "via": "from_array", "idxdt": idt},
                {"npint": bool(h & 1), "listkind": ["list", "array"][(h // 2) % 2], "via": RLV[1 + (h // 4) % 7], "maskvia": RLV[(h // 32) % 6], "idxdt": idt,
                 "spelling": ["plain", "tuple", "ellipsis"][(h // 1024) % 3], "npbounds": bool(h & 4096)}]
    if op in ("rl_ufunc", "rl_reduce"):
        hw = ["ufunc", "operator"][h % 2] if op == "rl_ufunc" else ["np", "method"][h % 2]
        return [{"how": hw, "via": "from_array", "share": True}, {"how": hw, "via": RLV[1 + (h // 4) % 7]}]
    if op == "rl_concat":
        return [{"via": "from_array"}, {"via": RLV[1 + (h // 4) % 7]}]
    OV = ["rev", "tail", "perm", "mask"]
    RAV = ["rows", "rowview", "listview", "revview", "colview", "stepview", "ufunc", "flat"][(h // 8) % 8]
    ML = ["C", "F", "T"][(h // 64) % 3]
    if op == "rl2_getitem":
        return [{"tuple1": bool(h & 1)}, {"tuple1": bool(h & 1), "objvia": OV[(h // 2) % 4], "ravia": RAV, "mlayout": ML}]
    if op == "rl2_func":
        return [{"how": ["method", "np"][h % 2]}, {"how": ["method", "np"][h % 2], "objvia": OV[(h // 2) % 4], "ravia": RAV, "mlayout": ML}]
    if op in ("rl2_ufunc", "rl2_concat"):
        return [{}, {"objvia": OV[(h // 2) % 4], "ravia": RAV, "mlayout": ML}]
    return [{}]


def _arr_cells(arr):
    return sum(len(r) for r in arr[1])


def nontrivial(prop, case):
    """Conservative: a case is non-trivial if its array has at least one cell (or the op is about shape)
    and the operation is not the identity selection."""
    op = case[0]
    try:
        if op == "getitem" or op == "setitem":
            return _arr_cells(case[1]) > 0 and not (case[2] == ["all"] and case[3] == ["none"])
        if op == "readback":
            return True
        if op == "ufunc":
            a = case[2] if case[2][0] == "ra" else case[3]
            return _arr_cells(a[1]) > 0
        if op in ("reduce", "scan"):
            return len(case[2][1]) > 0
        if op == "concat":
            return sum(len(a[1]) for a in case[1]) > 0
        if op in ("like", "pad", "nonzero"):
            return len(case[2 if op == "like" else 1][1]) > 0
        if op in ("where", "subset"):
            return _arr_cells(case[1]) > 0
        if op == "ragged_slice":
            return True
        if op == "col":
            return _arr_cells(case[2]) > 0
    except Exception:
        return False
    return True


HVIAS = [v for v in RVIAS if v != "unsafe"]          # programs contain refused steps: safe_mode=False arrays are for one-shot cases only


def heap_variants(prop, case):
    h = _h(case)
    return [{"via0": "flat", "spelling": "plain"}, {"via0": HVIAS[h % len(HVIAS)], "spelling": SPELLINGS[(h // 16) % len(SPELLINGS)]}]


def hash_variants(prop, case):
    h = _h(case)
    return [{"query": ["list", "array"][h % 2], "batch": ["list", "array"][(h // 2) % 2], "npkey": bool(h & 4), "vecset": bool(h & 8),
             "omit_zero": bool(h & 16), "kdt": ["i8", "i8", "i4", "i2"][(h // 32) % 4], "vdt": "i8"}]
