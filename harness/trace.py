"""Binding B: events recorded from the real code are validated by TLC against the specification.

Events are sharded over several TLC processes (one worker each, so PrintT lines do not interleave);
each shard is a JSON array read by the Trace_* module through IOEnv.TRACE_FILE."""
import os, json, subprocess, concurrent.futures as cf
from .common import SPEC, scratch, NCPU
from . import tlc, tlaparse


def _run_shard(args):
    module, cfg, path, timeout = args
    res = tlc.run_tlc(module, cfg, workers=1, timeout=timeout, env={"TRACE_FILE": path}, heap="2g", name=os.path.basename(path))
    return path, res


def validate(events, module_name, shards=NCPU, timeout=900):
    """events: list of dicts with keys id, case, out, strict.  Returns (verdicts: id -> (verdict, expected|None), stats)."""
    module = os.path.join(SPEC, "trace", module_name + ".tla")
    cfg = os.path.join(SPEC, "trace", module_name + ".cfg")
    sc = scratch()
    n = max(1, min(shards, (len(events) + 199) // 200))
    paths = []
    for k in range(n):
        part = events[k::n]
        p = os.path.join(sc, f"trace.{module_name}.{os.getpid()}.{k}.json")
        with open(p, "w") as f:
            json.dump(part, f)
        paths.append((module, cfg, p, timeout))
    verdicts = {}
    states = 0
    with cf.ThreadPoolExecutor(n) as ex:
        for path, res in ex.map(_run_shard, paths):
            if res["errors"] or not res["finished"] or any("violated" in v for v in res["violated"]):
                lines = res["stdout"].splitlines()
                k = next((i for i, l in enumerate(lines) if l.startswith("Error:")), max(0, len(lines) - 30))
                tail = "\n".join(l for l in lines[k:k + 60] if not l.startswith(("State ", "l = ")) and l.strip())
                raise tlc.TLCError(f"trace validation failed to run to the end of {path}:\n{tail}")
            states += res["distinct"]
            for raw in tlc.printed_tuples(res["stdout"]):
                t = tlaparse.parse_value(raw)
                if t[0] == "U":
                    verdicts[t[1]] = ("unspec", None)
                elif t[0] == "V":
                    verdicts[t[1]] = (t[2], t[3])
            os.remove(path)
    for e in events:
        verdicts.setdefault(e["id"], ("ok", None))
    return verdicts, {"trace_states": states, "shards": n}
