"""Parse TLA+ values as printed by TLC (dumps, PrintT, simulation files) into Python values.

The observable variables of the mc/ and trace/ wrappers are built from tuples, integers, strings and
booleans only, so the fast path is textual substitution + ast.literal_eval; a small recursive parser
handles records, functions (:> @@) and sets where level-M state is read."""
import ast, re

_fast_bad = re.compile(r"\|->|:>|@@|\{|\}")


def parse_value(txt):
    t = txt.strip()
    if not _fast_bad.search(t):
        t2 = t.replace("<<", "[").replace(">>", "]").replace("TRUE", "True").replace("FALSE", "False")
        try:
            return ast.literal_eval(" ".join(t2.split()))
        except Exception:
            pass
    return _Parser(t).parse()


class _Parser:
    def __init__(self, s):
        self.s = s
        self.i = 0

    def ws(self):
        while self.i < len(self.s) and self.s[self.i].isspace():
            self.i += 1

    def peek(self, k=1):
        self.ws()
        return self.s[self.i:self.i + k]

    def eat(self, tok):
        self.ws()
        assert self.s.startswith(tok, self.i), (tok, self.s[self.i:self.i + 30])
        self.i += len(tok)

    def parse(self):
        v = self.value()
        self.ws()
        return v

    def value(self):
        self.ws()
        v = self.atom()
        # function composition  a :> b @@ c :> d
        self.ws()
        if self.s.startswith(":>", self.i):
            d = {}
            key = v
            while True:
                self.eat(":>")
                d[_hashable(key)] = self.atom()
                self.ws()
                if self.s.startswith("@@", self.i):
                    self.eat("@@")
                    key = self.atom()
                else:
                    break
            return d
        return v

    def atom(self):
        self.ws()
        c = self.s[self.i]
        if self.s.startswith("<<", self.i):
            self.eat("<<")
            out = []
            while self.peek(2) != ">>":
                out.append(self.value())
                if self.peek() == ",":
                    self.eat(",")
            self.eat(">>")
            return out
        if c == "{":
            self.eat("{")
            out = []
            while self.peek() != "}":
                out.append(self.value())
                if self.peek() == ",":
                    self.eat(",")
            self.eat("}")
            return {"__set__": out}
        if c == "[":
            self.eat("[")
            d = {}
            while self.peek() != "]":
                m = re.compile(r"[A-Za-z_][A-Za-z0-9_]*").match(self.s, self.i)
                name = m.group(0)
                self.i = m.end()
                self.eat("|->")
                d[name] = self.value()
                if self.peek() == ",":
                    self.eat(",")
            self.eat("]")
            return d
        if c == "(":
            self.eat("(")
            v = self.value()
            self.eat(")")
            return v
        if c == '"':
            j = self.i + 1
            while self.s[j] != '"':
                j += 2 if self.s[j] == "\\" else 1
            v = ast.literal_eval(self.s[self.i:j + 1])
            self.i = j + 1
            return v
        m = re.compile(r"-?\d+").match(self.s, self.i)
        if m:
            self.i = m.end()
            return int(m.group(0))
        m = re.compile(r"[A-Za-z_][A-Za-z0-9_]*").match(self.s, self.i)
        if m:
            self.i = m.end()
            w = m.group(0)
            return True if w == "TRUE" else False if w == "FALSE" else w
        raise ValueError("cannot parse at: " + self.s[self.i:self.i + 40])


def _hashable(v):
    return tuple(_hashable(x) for x in v) if isinstance(v, list) else v


_state_split = re.compile(r"^State \d+:.*$", re.M)
_var_split = re.compile(r"^/\\ ([A-Za-z_][A-Za-z0-9_]*) = ", re.M)


def split_states(text):
    """Yield the textual body of each state of a TLC dump."""
    parts = _state_split.split(text)
    for p in parts:
        p = p.strip()
        if p:
            yield p


def parse_state(body, wanted=None):
    """Parse one state body '/\\ v1 = ...\\n/\\ v2 = ...' into a dict (only `wanted` variables if given)."""
    out = {}
    ms = list(_var_split.finditer(body))
    for k, m in enumerate(ms):
        name = m.group(1)
        if wanted is not None and name not in wanted:
            continue
        end = ms[k + 1].start() if k + 1 < len(ms) else len(body)
        out[name] = parse_value(body[m.end():end])
    return out
