"""Execute BitArray (C13) and npdataclass / VarLenArray (C18) cases against the real classes."""
import warnings, dataclasses
import numpy as np
from .common import NONE, use_repo
from .enc import DT2NP

use_repo()
warnings.simplefilter("ignore")
from npstructures.bitarray import BitArray  # noqa: E402
from npstructures import npdataclass, VarLenArray  # noqa: E402


# ------------------------------------------------------------------ BitArray: digits <-> integers
def dig_to_int(d):
    return (int(d[0]) << 16) | int(d[1]) if isinstance(d, (list, tuple)) else int(d)


def int_to_dig(v, b):
    v = int(v)
    return [(v >> 16) & 0xFFFF, v & 0xFFFF] if b == 32 else v


def digits_of_word(v, b):
    """all 64/b digits of a 64-bit word, least significant first"""
    v = int(v)
    return [int_to_dig((v >> (k * b)) & ((1 << b) - 1), b) for k in range(64 // b)]


_LONG = {}


def long_array(seed, n, b):
    """a long pseudo-random digit array, the same in the driver and in every executor process"""
    key = (seed, n, b)
    if key not in _LONG:
        if len(_LONG) > 8:
            _LONG.clear()
        rng = np.random.RandomState(seed % (2 ** 31))
        _LONG[key] = {"a": rng.randint(0, 2 ** min(b, 31), size=n, dtype=np.int64).astype(np.uint64) * (2 if b == 32 else 1) % (1 << b)}
    return _LONG[key]


def op_bit_embedded(c, o):
    """The case is a LOCAL view (a few digits) of an operation on a long array: window `pos` of the long array's sliding windows
    is, by the specification, window 0 of the slice a[pos : pos + w]; element `pos` is element 0 of a[pos : pos + 1].  The long
    array is packed and queried once per process; TLC judges the local case."""
    op, b, a = c[0], int(c[1]), c[2]
    e = o["embed"]
    L = long_array(int(e["seed"]), int(e["n"]), b)
    pos = int(e["pos"])
    arr = L["a"]
    if [dig_to_int(d) for d in a] != [int(x) for x in arr[pos:pos + len(a)].tolist()]:
        raise ValueError("embedded slice does not match the long array")
    if "p" not in L:
        L["p"] = BitArray.pack(arr.astype(DT2NP[o.get("indt", "u8")] if b < 64 and o.get("indt", "u8") in ("u8", "i8") else np.uint64), b)
    p = L["p"]
    if op == "bit_window":
        w = int(c[3])
        if ("w", w) not in L:
            L[("w", w)] = np.asarray(p.sliding_window(w))
        return ["windows", [digits_of_word(L[("w", w)][pos], b)]]
    if op == "bit_get":
        return ["digit", int_to_dig(p[pos + int(c[3])], b)]
    if op == "bit_roundtrip":
        if "u" not in L:
            L["u"] = np.asarray(p.unpack())
        if len(L["u"]) != len(arr):
            return ["digits", []]
        return ["digits", [int_to_dig(x, b) for x in L["u"][pos:pos + len(a)].tolist()]]
    raise ValueError(op)


def op_bit(c, o):
    if o.get("embed"):
        return op_bit_embedded(c, o)
    op, b, a = c[0], int(c[1]), c[2]
    indt = o.get("indt", "u8")
    if b == 32 and indt in ("u1", "u2", "i1", "i2", "i4"):
        indt = "u4"
    if b == 16 and indt in ("u1", "i1", "i2"):
        indt = "u2"
    if b == 8 and indt == "i1":
        indt = "u1"
    arr = np.array([dig_to_int(d) for d in a], dtype=DT2NP[indt])
    keep = arr.copy()
    p = BitArray.pack(arr, b)
    if not np.array_equal(arr, keep):
        return ["not-repeatable", "pack() modified the caller's array"]
    if o.get("repack"):                            # packing the same source again (other width first) must not disturb the first result
        BitArray.pack(arr, 64 if b < 64 and 64 % b == 0 and False else b)
        wider = [x for x in (1, 2, 4, 8, 16, 32) if x > b and all(dig_to_int(d) < (1 << x) for d in a)]
        if wider:
            BitArray.pack(arr, wider[0])
        if not np.array_equal(arr, keep):
            return ["not-repeatable", "pack() modified the caller's array"]
    if o.get("pickled"):                           # the packed array after a pickle round trip
        import pickle
        p = pickle.loads(pickle.dumps(p))
    if o.get("pre_w") and op in ("bit_window", "bit_roundtrip", "bit_getlist") and len(a) >= int(o["pre_w"]):
        p.sliding_window(int(o["pre_w"]))          # an earlier window query (of another size) on the same object
    if op == "bit_roundtrip":
        u = p.unpack()
        return ["digits", [int_to_dig(x, b) for x in np.asarray(u).tolist()]]
    if op == "bit_len":
        return ["int", int(len(p.unpack()))]
    if op == "bit_get":
        i = int(c[3])
        idt = o.get("idxdt", "i8")                 # narrow index dtypes only where the position fits
        if idt != "i8" and not (0 <= i <= np.iinfo(DT2NP[idt]).max):
            idt = "i8"
        v = p[i] if not o.get("npidx") else p[DT2NP[idt](i)]
        return ["digit", int_to_dig(v, b)]
    if op == "bit_getlist":
        l = [int(x) for x in c[3]]
        idt = o.get("idxdt", "i8")
        if idt != "i8" and not all(0 <= x <= np.iinfo(DT2NP[idt]).max for x in l):
            idt = "i8"
        q = p[l] if o.get("listkind", "list") == "list" else p[np.array(l, dtype=DT2NP[idt])]
        return ["digits", [int_to_dig(x, b) for x in np.asarray(q.unpack()).tolist()]]
    if op == "bit_window":
        npw = o.get("npw")                         # the window size as a numpy integer instead of a python int
        w = p.sliding_window(int(c[3]) if not npw else DT2NP[npw](int(c[3])))
        out = ["windows", [digits_of_word(x, b) for x in np.asarray(w).tolist()]]
        if o.get("again"):                         # the same object must answer the same question the same way again
            w2 = p.sliding_window(int(c[3]))
            u2 = p.unpack()
            if [digits_of_word(x, b) for x in np.asarray(w2).tolist()] != out[1] or [dig_to_int(d) for d in a] != [int(x) for x in np.asarray(u2).tolist()]:
                return ["not-repeatable", "a second call on the same object answered differently"]
        return out
    raise ValueError(op)


# ------------------------------------------------------------------ npdataclass
_CLASSES = {}


def cls_for(names, inherit=False):
    """an npdataclass with the given array fields; with inherit=True the class extends the npdataclass of its first field
    (which is created - and used once - first), the way user code derives record types"""
    key = (tuple(names), inherit and len(names) > 1)
    if key not in _CLASSES:
        if key[1]:
            parent = cls_for(names[:1])
            parent(np.arange(2))[0:1]                                   # the parent class has been used before the child exists
            ns = {"__annotations__": {n: np.ndarray for n in names[1:]}}
            base = type("T_" + "_".join(names) + "_child", (parent,), ns)       # class Child(Parent), Parent itself an npdataclass
        else:
            ns = {"__annotations__": {n: np.ndarray for n in names}}
            base = type("T_" + "_".join(names), (), ns)
        _CLASSES[key] = npdataclass(base)
    return _CLASSES[key]


def col_np(col, w0=1):
    kind, data = col
    if kind == "1d":
        return np.array([int(x) for x in data], dtype=np.int64)
    w = len(data[0]) if data else w0           # an empty 2-D column has no width of its own: take it from its siblings
    m = np.array([[int(x) for x in r] for r in data], dtype=np.int64).reshape(len(data), w)
    return np.asfortranarray(m) if _LAYOUT[0] in ("F", "mixed") else np.ascontiguousarray(m.T).T if _LAYOUT[0] == "T" else m


_INHERIT = [False]
_LAYOUT = ["C"]


def mk_table(t, widths=None):
    names, cols = t
    return cls_for(names, _INHERIT[0])(*[col_np(c, (widths or {}).get(i, 1)) for i, c in enumerate(cols)])


def widths_of(tables):
    w = {}
    for t in tables:
        for i, c in enumerate(t[1]):
            if c[0] == "2d" and c[1]:
                w[i] = len(c[1][0])
    return w


def proj_col(x):
    a = np.asarray(x)
    if a.ndim == 1:
        return ["1d", [int(v) for v in a.tolist()]]
    return ["2d", [[int(v) for v in r] for r in a.tolist()]]


def proj_table(obj):
    names = [f.name for f in dataclasses.fields(obj)]
    return ["table", names, [proj_col(getattr(obj, n)) for n in names]]


def proj_entry(e):
    names = [f.name for f in dataclasses.fields(e)]
    vals = []
    for n in names:
        v = np.asarray(getattr(e, n))
        vals.append(int(v) if v.ndim == 0 else [int(x) for x in v.tolist()])
    return names, vals


def py_sel(sel):
    k = sel[0]
    if k == "int":
        return int(sel[1])
    if k == "slice":
        return slice(*[None if v == NONE else int(v) for v in sel[1:4]])
    if k == "list":
        return [int(v) for v in sel[1]]
    if k == "mask":
        return np.array([bool(v) for v in sel[1]], dtype=bool)
    raise ValueError(sel)


def narrow(t, dt):
    """the same table with its columns stored in a narrower integer dtype (only if every value fits)"""
    cols = shallow_cols(t)
    info = np.iinfo(DT2NP[dt])
    if not all(c.size == 0 or (c.min() >= info.min and c.max() <= info.max) for c in cols):
        return t
    return type(t)(*[c.astype(DT2NP[dt]) for c in cols])


def shallow_cols(t):
    return [np.asarray(getattr(t, f.name)) for f in dataclasses.fields(t)]


def op_dc(c, o):
    op = c[0]
    _INHERIT[0] = bool(o.get("inherit"))
    _LAYOUT[0] = o.get("layout", "C")
    if op == "dc_new":
        return proj_table(mk_table(c[1]))
    if op == "dc_len":
        return ["int", len(mk_table(c[1]))]
    if op == "dc_getitem":
        t = mk_table(c[1])
        sel = py_sel(c[2])
        if c[2][0] == "mask" and o.get("listmask"):
            sel = [bool(v) for v in c[2][1]]           # the mask as a plain list of bools
        if c[2][0] == "int" and o.get("npint"):
            sel = np.int64(sel)
        r = t[sel]
        if c[2][0] == "int":
            names, vals = proj_entry(r)
            return ["entry", names, vals]
        return proj_table(r)
    if op == "dc_iter":
        t = mk_table(c[1])
        es = [proj_entry(e) for e in t]
        return ["entries", [f.name for f in dataclasses.fields(t)], [v for _, v in es]]
    if op == "dc_concat":
        ws = widths_of(c[1])
        ts = [mk_table(t, ws) for t in c[1]]
        if o.get("firstdt") and ts:                # parts of different integer widths: numpy promotes, values are kept
            ts[0] = narrow(ts[0], o["firstdt"])
        return proj_table(np.concatenate(ts))
    if op == "dc_eq":
        ws = widths_of([c[1], c[2]])
        return ["bool", int(bool(mk_table(c[1], ws) == mk_table(c[2], ws)))]
    if op == "dc_astype":
        t = mk_table(c[1])
        return proj_table(t.astype(cls_for(c[2])))
    if op == "vl_concat":
        def lay(x, k):                              # the same block in another memory layout is the same block
            L = o.get("layout", "C")
            if L == "F" or (L == "mixed" and k % 2):
                return np.asfortranarray(x)
            if L == "T":
                return np.ascontiguousarray(x.T).T
            return x
        ms = [VarLenArray(lay(np.array(m, dtype=np.int64).reshape(len(m), len(m[0])), k)) for k, m in enumerate(c[1])]
        r = np.concatenate(ms)
        return ["matrix2", [[int(x) for x in row] for row in np.asarray(r.array).tolist()]]
    raise ValueError(op)


def execute(case, opts=None):
    o = opts or {}
    try:
        return op_bit(case, o) if case[0].startswith("bit_") else op_dc(case, o)
    except AssertionError:
        return ["raised", "AssertionError"]
    except Exception as e:
        return ["raised", type(e).__name__]
