"""Binding A: replay TLC-generated cases into the real code (multi-process) and compare with TLC's expectation."""
import os, signal, multiprocessing as mp, importlib
from .common import NCPU
from . import tlaparse
from .judge import judge

CASE_TIMEOUT = 10


class _Timeout(Exception):
    pass


def _alarm(signum, frame):
    raise _Timeout()


def run_case(execute, case, opts):
    signal.signal(signal.SIGALRM, _alarm)
    signal.alarm(CASE_TIMEOUT)
    try:
        return execute(case, opts)
    except _Timeout:
        return ["noreturn"]
    finally:
        signal.alarm(0)


def _chunk_worker(args):
    """Parse a slice of the dump, execute every case state under every variant, judge."""
    path, start, end, family, prop, strict, variants_name, want_phase = args
    fam = importlib.import_module("harness.exec_" + family)
    vmod = importlib.import_module("harness.props")
    variants = getattr(vmod, variants_name)
    with open(path, "rb") as f:
        f.seek(start)
        text = f.read(end - start).decode()
    stats = {"cases": 0, "evals": 0, "ok": 0, "unspec": 0, "nontrivial": 0}
    bad = []
    samples = []
    for body in tlaparse.split_states(text):
        st = tlaparse.parse_state(body, ("case", "exp", "phase"))
        if st.get("phase") != want_phase:
            continue
        case, exp = st["case"], st["exp"]
        stats["cases"] += 1
        if vmod.nontrivial(prop, case):
            stats["nontrivial"] += 1
        if len(samples) < 2:
            samples.append({"case": case, "expected": exp})
        for opts in variants(prop, case):
            out = run_case(fam.execute, case, opts)
            v = judge(exp, out, strict)
            stats["evals"] += 1
            if v == "ok":
                stats["ok"] += 1
            elif v == "unspec":
                stats["unspec"] += 1
            else:
                bad.append({"case": case, "opts": opts, "expected": exp, "observed": out, "verdict": v})
    return stats, bad, samples


def _split_offsets(path, nparts):
    """byte offsets that fall on 'State n:' boundaries"""
    size = os.path.getsize(path)
    offs = [0]
    with open(path, "rb") as f:
        for k in range(1, nparts):
            f.seek(size * k // nparts)
            buf = f.read(1 << 20)
            j = buf.find(b"\nState ")
            if j < 0:
                continue
            offs.append(size * k // nparts + j + 1)
    offs.append(size)
    return sorted(set(offs))


def replay_dump(path, family, prop, strict, variants_name="variants", want_phase=2, procs=NCPU):
    offs = _split_offsets(path, procs * 4)
    tasks = [(path, a, b, family, prop, strict, variants_name, want_phase) for a, b in zip(offs, offs[1:])]
    total = {"cases": 0, "evals": 0, "ok": 0, "unspec": 0, "nontrivial": 0}
    bad, samples = [], []
    ctx = mp.get_context("fork")
    with ctx.Pool(procs) as pool:
        for stats, b, s in pool.imap_unordered(_chunk_worker, tasks):
            for k in total:
                total[k] += stats[k]
            bad += b
            if len(samples) < 4:
                samples += s
    return total, bad, samples[:4]
