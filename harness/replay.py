"""Binding A: replay TLC-generated cases into the real code (multi-process) and compare with TLC's expectation."""
import os, signal, multiprocessing as mp, importlib
from .common import NCPU
from . import tlaparse
from .judge import judge

CASE_TIMEOUT = 10


class _Timeout(Exception):
    pass


def _alarm(signum, frame):
    raise _Timeout()


def run_case(execute, case, opts):
    import numpy as np
    signal.signal(signal.SIGALRM, _alarm)
    signal.alarm(CASE_TIMEOUT)
    err0 = np.geterr()
    try:
        out = execute(case, opts)
        if np.geterr() != err0:                  # the library is a guest in the process: numpy's global error state is not its to change
            np.seterr(**err0)
            return ["mutated", "numpy's global error state (np.seterr) was changed by the call"]
        return out
    except _Timeout:
        return ["noreturn"]
    finally:
        signal.alarm(0)


def _chunk_worker(args):
    """Parse a slice of the dump, execute every case state under every variant, judge."""
    path, start, end, family, prop, strict0, variants_name, want_phase = args
    fam = importlib.import_module("harness.exec_" + family)
    vmod = importlib.import_module("harness.props")
    variants = getattr(vmod, variants_name)
    with open(path, "rb") as f:
        f.seek(start)
        text = f.read(end - start).decode()
    stats = {"cases": 0, "evals": 0, "ok": 0, "unspec": 0, "nontrivial": 0}
    bad = []
    samples = []
    for body in tlaparse.split_states(text):
        st = tlaparse.parse_state(body, ("case", "exp", "phase"))
        if st.get("phase") != want_phase:
            continue
        case, exp = st["case"], st["exp"]
        stats["cases"] += 1
        if exp[0] == "unspec":                 # the property makes no claim for this case: nothing to execute or judge
            stats["unspec"] += 1
            continue
        if vmod.nontrivial(prop, case):
            stats["nontrivial"] += 1
        if len(samples) < 2:
            samples.append({"case": case, "expected": exp})
        strict = strict0 and case[0] not in NONSTRICT_OPS      # aggregates are claimed by value (the drivers say the same per case)
        for opts in variants(prop, case):
            out = run_case(fam.execute, case, opts)
            v = judge(exp, out, strict)
            if vmod.unclaimed_refusal(opts, v):
                v = "unspec"
            stats["evals"] += 1
            if v == "ok":
                stats["ok"] += 1
            elif v == "unspec":
                stats["unspec"] += 1
            else:
                # a deterministic library reproduces a real mismatch: execute the case once more, in this same process (so that
                # process-wide state left by earlier cases is still there); a mismatch that does not recur is recorded as transient
                out2 = run_case(fam.execute, case, opts)
                if judge(exp, out2, strict) in ("ok", "unspec"):
                    stats["transient"] = stats.get("transient", 0) + 1
                else:
                    bad.append({"case": case, "opts": opts, "expected": exp, "observed": out, "verdict": v})
    return stats, bad, samples


NONSTRICT_OPS = ("rl_reduce", "rl_hist", "rl2_func")


def _split_offsets(path, nparts):
    """byte offsets that fall on 'State n:' boundaries"""
    size = os.path.getsize(path)
    offs = [0]
    with open(path, "rb") as f:
        for k in range(1, nparts):
            f.seek(size * k // nparts)
            buf = f.read(1 << 20)
            j = buf.find(b"\nState ")
            if j < 0:
                continue
            offs.append(size * k // nparts + j + 1)
    offs.append(size)
    return sorted(set(offs))


def replay_dump(path, family, prop, strict, variants_name="variants", want_phase=2, procs=NCPU):
    offs = _split_offsets(path, procs * 4)
    tasks = [(path, a, b, family, prop, strict, variants_name, want_phase) for a, b in zip(offs, offs[1:])]
    total = {"cases": 0, "evals": 0, "ok": 0, "unspec": 0, "nontrivial": 0, "transient": 0}
    bad, samples = [], []
    ctx = mp.get_context("fork")
    with ctx.Pool(procs) as pool:
        for stats, b, s in pool.imap_unordered(_chunk_worker, tasks):
            for k in total:
                total[k] += stats.get(k, 0)
            bad += b
            if len(samples) < 4:
                samples += s
    return total, bad, samples[:4]


# ------------------------------------------------------------------ heap machine (programs are behaviours)
def mech_rows(bufs, v):
    return [[bufs[v[0] - 1][p - 1] for p in row] for row in v[1]]


def _step_handles(step):
    k = step[0]
    if k in ("select", "assign", "read", "fill"):
        return [step[1]]
    if k == "ufunc":
        return [o[1] for o in (step[2], step[3]) if o[0] == "h"]
    if k == "func":
        return [step[2], step[3][0]] if step[1] == "concat" else [step[2]]
    return []


def judge_heap_state(st, run, strict=False):
    """Compare the real objects after the program with level A (heap) and, for classification, with level M.
    Returns a list of mismatch dicts (empty = conforms)."""
    from .judge import judge
    bad = []
    heap, bufs, view = st["heap"], st["bufs"], st["view"]
    stale = st["stale"]["__set__"] if isinstance(st["stale"], dict) else list(st["stale"])
    mayst = st["mayst"]["__set__"] if isinstance(st.get("mayst"), dict) else list(st.get("mayst") or [])
    final = run[-1]
    obs = final["obs"]
    if st["last"][0] == "obs" and st["last"][1][0] == "unspec":
        return bad                                  # the last step is outside every claim: this program prefix is not judged
    if len(obs) != len(heap):
        bad.append({"verdict": "handles", "expected": ["handles", len(heap)], "observed": ["handles", len(obs)], "handle": 0})
        return bad
    for g, (exp, ob) in enumerate(zip(heap, obs), 1):
        e = ["ragged", exp[0], exp[1]]
        o = ["ragged", ob[0], ob[1]] if ob[0] != "raised" else ob
        v = judge(e, o, False)
        if v != "ok":
            m = ["ragged", exp[0], mech_rows(bufs, view[g - 1])]
            bad.append({"verdict": v, "expected": e, "observed": o, "handle": g, "stale": g in stale, "maystale": g in mayst,
                        "mech": m, "mech_match": judge(m, o, False) == "ok"})
    last = st["last"]
    res = final["res"]
    if last[0] == "obs":
        if res[0] != "obs":
            bad.append({"verdict": "not-refused" if last[1][0] == "refused" else "kind", "expected": last[1], "observed": res, "handle": 0})
        else:
            v = judge(last[1], res[1], False)
            if v not in ("ok", "unspec"):
                hs = [h for h in _step_handles(st["hist"][-1])]
                bad.append({"verdict": v, "expected": last[1], "observed": res[1], "handle": 0, "stale": any(h in stale for h in hs),
                            "maystale": any(h in mayst for h in hs), "mech": last[2], "mech_match": judge(last[2], res[1], False) == "ok"})
    elif last[0] == "new" and res[0] != "new":
        bad.append({"verdict": "raised" if res[0] == "obs" else "kind", "expected": last, "observed": res, "handle": 0})
    elif last[0] == "none" and res[0] == "obs":
        bad.append({"verdict": "raised", "expected": last, "observed": res[1], "handle": 0})
    return bad


def _heap_worker(args):
    path, start, end, prop, variants_name, min_len = args
    from . import exec_heap
    vmod = importlib.import_module("harness.props")
    variants = getattr(vmod, variants_name)
    with open(path, "rb") as f:
        f.seek(start)
        text = f.read(end - start).decode()
    stats = {"cases": 0, "evals": 0, "ok": 0, "unspec": 0, "nontrivial": 0, "observations": 0}
    bad, samples = [], []
    for body in tlaparse.split_states(text):
        st = tlaparse.parse_state(body, ("hist", "heap", "bufs", "view", "stale", "mayst", "last"))
        prog = st.get("hist")
        if not prog or len(prog) < min_len:
            continue
        stats["cases"] += 1
        if len(prog) >= 2:
            stats["nontrivial"] += 1
        if len(samples) < 1:
            samples.append({"program": prog, "expected_heap": st["heap"]})
        for opts in variants(prop, ["program", prog]):
            try:
                signal.signal(signal.SIGALRM, _alarm)
                signal.alarm(CASE_TIMEOUT)
                run = exec_heap.run_program(prog, opts, observe="last")
            except _Timeout:
                bad.append({"steps": prog, "opts": opts, "verdict": "noreturn", "expected": None, "observed": ["noreturn"], "handle": 0})
                continue
            finally:
                signal.alarm(0)
            stats["evals"] += 1
            stats["observations"] += len(st["heap"])
            b = judge_heap_state(st, run)
            if any(not x.get("maystale") for x in b):
                b2 = judge_heap_state(st, exec_heap.run_program(prog, opts, observe="last"))       # confirmation, same process
                if not any(not x.get("maystale") for x in b2):
                    stats["transient"] = stats.get("transient", 0) + 1
                    b = b2
            if not b:
                stats["ok"] += 1
            for x in b:
                x.update({"steps": prog, "opts": opts})
            bad += b
    return stats, bad, samples


def replay_heap_dump(path, prop, variants_name="heap_variants", min_len=1, procs=NCPU):
    offs = _split_offsets(path, procs * 4)
    tasks = [(path, a, b, prop, variants_name, min_len) for a, b in zip(offs, offs[1:])]
    total = {"cases": 0, "evals": 0, "ok": 0, "unspec": 0, "nontrivial": 0, "observations": 0, "transient": 0}
    bad, samples = [], []
    ctx = mp.get_context("fork")
    with ctx.Pool(procs) as pool:
        for stats, b, s in pool.imap_unordered(_heap_worker, tasks):
            for k in total:
                total[k] += stats.get(k, 0)
            bad += b
            if len(samples) < 3:
                samples += s
    return total, bad, samples[:3]


# ------------------------------------------------------------------ C19: same case under both index widths
def same_outcome(exp, a, b):
    """are the two observed outcomes the same in everything the specification claims for this case?"""
    if a[0] == "raised" and b[0] == "raised":
        return True                                     # exception types are not distinguished
    if exp is not None and exp[0] == "shape" and a[0] == b[0] == "ragged":      # empty_like: content is uninitialised memory
        return a[1] == b[1] and [len(r) for r in a[2]] == [len(r) for r in b[2]]
    if exp is not None and exp[0] in ("partial", "pcol") and a[0] == b[0] and len(a) > 2 and len(b) > 2 and len(a[2]) == len(b[2]) == len(exp[3]):
        return a[1] == b[1] and all(m != 1 or repr(x) == repr(y) for x, y, m in zip(a[2], b[2], exp[3]))
    return repr(a) == repr(b)


def _c19_worker(args):
    path, start, end, family, want_phase = args
    vmod = importlib.import_module("harness.props")
    with open(path, "rb") as f:
        f.seek(start)
        text = f.read(end - start).decode()
    stats = {"cases": 0, "evals": 0, "ok": 0, "unspec": 0, "nontrivial": 0, "wrong_in_both": 0}
    bad, samples = [], []
    if family == "heap":
        from . import exec_heap
        for body in tlaparse.split_states(text):
            st = tlaparse.parse_state(body, ("hist", "heap", "bufs", "view", "stale", "last"))
            prog = st.get("hist")
            if not prog:
                continue
            stats["cases"] += 1
            stats["nontrivial"] += len(prog) >= 2
            runs = {}
            for w in (64, 32):
                try:
                    signal.signal(signal.SIGALRM, _alarm)
                    signal.alarm(CASE_TIMEOUT)
                    runs[w] = exec_heap.run_program(prog, {"width": w}, observe="last")[-1]
                except _Timeout:
                    runs[w] = {"res": ["noreturn"], "obs": None}
                finally:
                    signal.alarm(0)
                stats["evals"] += 1
            if repr(runs[64]) == repr(runs[32]):
                stats["ok"] += 1
            else:
                bad.append({"steps": prog, "opts": {"width": "64 vs 32"}, "verdict": "width", "expected": runs[64], "observed": runs[32], "handle": 0})
        return stats, bad, samples
    fam = importlib.import_module("harness.exec_" + family)
    for body in tlaparse.split_states(text):
        st = tlaparse.parse_state(body, ("case", "exp", "phase"))
        if st.get("phase") != want_phase:
            continue
        case, exp = st["case"], st["exp"]
        stats["cases"] += 1
        stats["nontrivial"] += bool(vmod.nontrivial("C19", case))
        if len(samples) < 1:
            samples.append({"case": case, "expected": exp})
        for opts in vmod.variants("C19", case)[-1:]:
            opts = vmod.safe_opts(opts)
            o64, o32 = dict(opts, width=64), dict(opts, width=32)
            a = run_case(fam.execute, case, o64)
            b = run_case(fam.execute, case, o32)
            stats["evals"] += 2
            va, vb = judge(exp, a, True), judge(exp, b, True)
            if exp[0] == "unspec":
                stats["unspec"] += 1                   # outside the claim of the source property: not judged
            elif same_outcome(exp, a, b):
                stats["ok"] += 1
                if va not in ("ok", "unspec"):
                    stats["wrong_in_both"] += 1        # charged to the case's own property, not to C19
            else:
                bad.append({"case": case, "opts": opts, "expected": a, "observed": b, "verdict": "width", "spec": exp,
                            "verdict64": va, "verdict32": vb})
    return stats, bad, samples


def replay_c19(path, family, want_phase=2, procs=NCPU):
    offs = _split_offsets(path, procs * 4)
    tasks = [(path, a, b, family, want_phase) for a, b in zip(offs, offs[1:])]
    total = {"cases": 0, "evals": 0, "ok": 0, "unspec": 0, "nontrivial": 0, "wrong_in_both": 0}
    bad, samples = [], []
    ctx = mp.get_context("fork")
    with ctx.Pool(procs) as pool:
        for stats, b, s in pool.imap_unordered(_c19_worker, tasks):
            for k in total:
                total[k] += stats[k]
            bad += b
            if len(samples) < 3:
                samples += s
    return total, bad, samples[:3]


# ------------------------------------------------------------------ hash-table machine
def judge_hash_res(last, res):
    """verdict for the step's own result"""
    if last[0] == "new":
        return "ok" if res[0] == "new" else "raised"
    if last[0] == "none":
        return "ok" if res[0] == "none" else "raised"
    exp = last[1]
    if exp[0] == "unspec":
        return "unspec"
    if res[0] != "obs":
        return "not-refused" if exp[0] == "refused" else "kind"
    out = res[1]
    if exp[0] == "refused":
        return "ok" if out[0] == "raised" else "not-refused"
    if out[0] == "raised":
        return "raised"
    if exp[0] != out[0]:
        return "kind"
    return "ok" if _norm_list(exp[1:]) == _norm_list(out[1:]) else "value"


def _norm_list(v):
    return [_norm_list(x) for x in v] if isinstance(v, (list, tuple)) else (int(v) if isinstance(v, bool) else v)


def judge_hash_state(st, run):
    bad = []
    tabs = st["tabs"]
    final = run[-1]
    obs = final["obs"]
    v = judge_hash_res(st["hlast"], final["res"])
    if v not in ("ok", "unspec"):
        bad.append({"verdict": v, "expected": st["hlast"], "observed": final["res"], "handle": 0})
    if len(obs) != len(tabs):
        if v == "ok":
            bad.append({"verdict": "handles", "expected": ["tables", len(tabs)], "observed": ["tables", len(obs)], "handle": 0})
        return bad, v
    for g, (t, ob) in enumerate(zip(tabs, obs), 1):
        if ob[0] == "raised":
            bad.append({"verdict": "raised", "expected": ["vals", t[1]], "observed": ob, "handle": g})
        elif ob[0] == "set":
            if any(x != 1 for x in ob[1]):
                bad.append({"verdict": "value", "expected": ["set", [1] * len(t[0])], "observed": ob, "handle": g})
        elif _norm_list(ob[1]) != _norm_list(t[1]):
            bad.append({"verdict": "value", "expected": ["vals", t[1]], "observed": ob, "handle": g})
    return bad, v


def _hash_worker(args):
    path, start, end, prop, variants_name, min_len = args
    from . import exec_hash
    vmod = importlib.import_module("harness.props")
    variants = getattr(vmod, variants_name)
    with open(path, "rb") as f:
        f.seek(start)
        text = f.read(end - start).decode()
    stats = {"cases": 0, "evals": 0, "ok": 0, "unspec": 0, "nontrivial": 0, "observations": 0}
    bad, samples = [], []
    for body in tlaparse.split_states(text):
        st = tlaparse.parse_state(body, ("hist", "tabs", "hlast"))
        prog = st.get("hist")
        if not prog or len(prog) < min_len:
            continue
        stats["cases"] += 1
        stats["nontrivial"] += len(prog) >= 2
        if len(samples) < 1:
            samples.append({"program": prog, "expected_tables": st["tabs"], "expected_result": st["hlast"]})
        for opts in variants(prop, ["program", prog]):
            try:
                signal.signal(signal.SIGALRM, _alarm)
                signal.alarm(CASE_TIMEOUT)
                run = exec_hash.run_program(prog, opts, observe="last")
            except _Timeout:
                bad.append({"steps": prog, "opts": opts, "verdict": "noreturn", "expected": None, "observed": ["noreturn"], "handle": 0})
                continue
            finally:
                signal.alarm(0)
            stats["evals"] += 1
            stats["observations"] += len(st["tabs"])
            b, v = judge_hash_state(st, run)
            if b:
                b2, v2 = judge_hash_state(st, exec_hash.run_program(prog, opts, observe="last"))         # confirmation, same process
                if not b2:
                    stats["transient"] = stats.get("transient", 0) + 1
                    b, v = b2, v2
            if v == "unspec":
                stats["unspec"] += 1
            if not b:
                stats["ok"] += 1
            for x in b:
                x.update({"steps": prog, "opts": opts})
            bad += b
    return stats, bad, samples


def replay_hash_dump(path, prop, variants_name="hash_variants", min_len=1, procs=NCPU):
    offs = _split_offsets(path, procs * 4)
    tasks = [(path, a, b, prop, variants_name, min_len) for a, b in zip(offs, offs[1:])]
    total = {"cases": 0, "evals": 0, "ok": 0, "unspec": 0, "nontrivial": 0, "observations": 0, "transient": 0}
    bad, samples = [], []
    ctx = mp.get_context("fork")
    with ctx.Pool(procs) as pool:
        for stats, b, s in pool.imap_unordered(_hash_worker, tasks):
            for k in total:
                total[k] += stats.get(k, 0)
            bad += b
            if len(samples) < 3:
                samples += s
    return total, bad, samples[:3]
