"""Seeded drivers for the run-length family (C14 - C17)."""
import random
from .common import NONE
from .drivers_ragged import rnd_val, rnd_slice, BINARY, UNARY

RLV = ["from_array", "from_array", "concat2", "concat3", "pieces", "ufunc", "astype", "derived", "derived2", "pickled"]
RL_DTS = ["b1", "i1", "u1", "i2", "u2", "i4", "i8", "i8", "u4", "u8", "f2", "f4", "f8"]


def rnd_runs(r, dt, n=None, nan_ok=True, small=False):
    """a dense sequence with a random run pattern: all-equal, all-different, single element, long runs"""
    n = r.choice([1, 1, 2, 3, 5, 8, 13]) if n is None else n
    mode = r.choice(["runs", "runs", "allsame", "alldiff", "long"])
    out = []
    while len(out) < n:
        v = rnd_val(r, dt)
        if small and dt[0] != "f" and dt != "b1":
            v = max(-4, min(4, v)) if dt[0] == "i" else min(4, v)
        if not nan_ok and isinstance(v, list) and v[1] == 0:
            continue
        k = 1 if mode == "alldiff" else n if mode == "allsame" else r.randint(1, 6) if mode == "long" else r.randint(1, 3)
        out += [v] * k
    return out[:n]


def gen_c14(r):
    if r.random() < 0.04:
        # a long array (tens of thousands of cells, a few dozen runs, runs that straddle every power-of-two position), given run by run
        dt = r.choice(["i8", "u1", "i2", "b1", "i4"])
        total = r.choice([40000, 65537, 70000, 131073, 140000])
        cuts = sorted({r.randint(1, total - 1) for _ in range(r.randint(1, 12))} | {c for c in (32768, 65536, 131072) if c < total and r.random() < 0.5})
        bounds = [0] + cuts + [total]
        vals = [(i % 2 if dt == "b1" else (3 + i) % 5) if r.random() < 0.75 else (0 if dt == "b1" else 3) for i in range(len(bounds) - 1)]
        return ["rl_encode_runs", dt, [[v, b - a] for v, a, b in zip(vals, bounds, bounds[1:])]], {}, True
    dt = r.choice(RL_DTS)
    a = rnd_runs(r, dt, r.choice([1, 1, 2, 3, 4, 6, 9, 14]))
    if dt in ("i8", "u8", "u4") and r.random() < 0.5:
        # values beyond 2**31 / 2**53 (neighbours that a float64 comparison would merge), sent as 16-bit limbs
        from .enc import limbs
        base = r.choice([2 ** 53, 2 ** 62, 2 ** 63 - 20, 2 ** 40]) if dt != "u4" else 2 ** 32 - 20       # at most 14 distinct values follow
        if dt == "u8":
            base = r.choice([2 ** 53, 2 ** 63, 2 ** 64 - 20])
        sign = -1 if dt == "i8" and r.random() < 0.3 else 1
        vals = {}
        a = [limbs(sign * (base + vals.setdefault(repr(v), len(vals)))) for v in a]
    how = r.choice(["to_array", "asarray", "len", "size", "shape", "dtype", "encoding", "encoding"])
    return ["rl_roundtrip", dt, a, how], {"input": r.choice(["array", "array", "list"]), "conv": r.choice(["asarray", "array"])}, True


def gen_c15(r):
    dt = r.choice(["i8", "i8", "i2", "u2", "u1", "b1", "f8", "f4"])
    n = r.choice([1, 2, 3, 5, 8, 12])
    if r.random() < 0.08:
        n = r.choice([70, 100, 127, 128, 130, 140])        # beyond the range of 8-bit positions
    a = rnd_runs(r, dt, n)
    if n > 20 and r.random() < 0.6 and dt not in ("b1",):
        # many runs (every cell its own run where the dtype allows): strides then skip dozens of runs at a time
        a = [rnd_val(r, dt) if i % 2 else a[i] for i in range(n)]
        a = [v if i == 0 or v != a[i - 1] else ([v[0] + v[1], v[1]] if isinstance(v, list) and v[1] else (v + 1 if not isinstance(v, list) and v < 100 else a[i - 1])) for i, v in enumerate(a)]
    k = r.choice(["int", "list", "mask", "rlmask", "slice", "slice", "slice", "slice", "windows", "all"])
    if n > 20:
        k = r.choice(["int", "list", "slice", "slice", "slice"])
    if k == "list" and r.random() < 0.25:
        w = r.randint(1, 3)
        idx = ["list2d", [[r.randint(-n, n - 1) for _ in range(w)] for _ in range(r.randint(1, 3))]]
        return ["rl_getitem", dt, a, idx], {"via": r.choice(RLV), "mlayout": r.choice(["C", "F", "T"]), "spelling": r.choice(["plain", "tuple"])}, False
    if k == "int":
        idx = ["int", r.randint(-n - 1, n)]
    elif k == "list":
        idx = ["list", [r.randint(-n, n - 1) for _ in range(r.randint(0, 6))]]
    elif k in ("mask", "rlmask"):
        m = rnd_runs(r, "b1", n)
        if k == "rlmask" and not any(m):
            m[r.randrange(n)] = 1
        idx = [k, m]
    elif k == "slice":
        idx = rnd_slice(r, n)
        if n > 20 and r.random() < 0.6:             # strides of the order of the array length (few cells kept out of many runs)
            idx[3] = r.choice([-1, 1]) * r.choice([33, 64, 65, 70, 99, 100, 127, n - 1, n])
    elif k == "windows":
        w = r.randint(1, 4)
        st = [r.randint(0, n - 1) for _ in range(w)]
        if r.random() < 0.5:
            st.sort()                            # ordered windows that overlap here and leave gaps there
        idx = ["windows", st, [r.randint(s + 1, n) for s in st]]
    else:
        idx = ["all"]
    return ["rl_getitem", dt, a, idx], {"npint": r.random() < 0.3, "listkind": r.choice(["list", "array"]), "via": r.choice(RLV), "maskvia": r.choice(RLV[:7]),
                                        "idxdt": r.choice(["i8", "i8", "i1", "u1", "i2", "i4"]), "spelling": r.choice(["plain", "plain", "tuple", "ellipsis"]), "npbounds": r.random() < 0.3}, False


C16_DTS = ["b1", "i1", "u1", "i2", "i2", "u2", "i8", "f4", "f8"]


def gen_c16(r):
    k = r.choice(["ufunc", "ufunc", "ufunc", "reduce", "hist", "concat"])
    dt = r.choice(C16_DTS)
    n = r.choice([1, 2, 3, 5, 8, 11])
    if k == "ufunc":
        a = ["rl", dt, rnd_runs(r, dt, n)]
        if r.random() < 0.15:
            return ["rl_ufunc", r.choice(UNARY), a, ["none"]], {"how": r.choice(["ufunc", "operator"]), "via": r.choice(RLV), "share": r.random() < 0.5}, True
        f = r.choice(BINARY)
        ok = r.choice(["rl", "rl", "rl", "py", "py", "np"])
        dt2 = r.choice(C16_DTS)
        if ok == "rl":
            b = ["rl", dt2, rnd_runs(r, dt2, n)]
        elif ok == "np":
            b = ["np", dt2, rnd_val(r, dt2)]
        else:
            pk = r.choice(["pybool", "pyint", "pyint", "pyfloat"])
            v = r.randint(0, 1) if pk == "pybool" else r.randint(-5, 9) if pk == "pyint" else [r.randint(-9, 9), r.choice([1, 2])]
            if pk == "pyfloat" and v[1] == 2 and v[0] % 2 == 0:
                v = [v[0] // 2, 1]
            if pk == "pyint" and dt[0] == "u":
                v = abs(v)
            b = ["py", pk, v]
        if r.random() < 0.4:
            a, b = b, a
        return ["rl_ufunc", f, a, b], {"how": r.choice(["ufunc", "operator"]), "via": r.choice(RLV), "share": r.random() < 0.5}, True
    if k == "reduce" and r.random() < 0.15:
        to = r.choice(C16_DTS + ["u4", "i4"])
        return ["rl_astype", dt, rnd_runs(r, dt, n, nan_ok=True), to], {"via": r.choice(RLV)}, True
    if k == "reduce" and r.random() < 0.25:
        from .enc import limbs
        wdt = r.choice(["u8", "u8", "i8", "i4", "u4", "i2"])
        base = r.choice([2 ** 53, 2 ** 60, 2 ** 63 - 50, 3]) if wdt == "i8" else r.choice([2 ** 53, 2 ** 63, 2 ** 64 - 50, 2 ** 62, 3])
        if wdt in ("i4", "u4", "i2"):            # 32- / 16-bit values near their extremes, in runs: totals far beyond the dtype
            base = {"i4": 2 ** 31 - 50, "u4": 2 ** 32 - 50, "i2": 2 ** 15 - 50}[wdt]
        pat = rnd_runs(r, "i1", n if wdt not in ("i2",) else r.choice([n, 70, 140]), small=True)
        sign = -1 if wdt == "i8" and r.random() < 0.3 else 1
        return ["rl_wsum", wdt, [limbs(sign * (base + abs(v))) for v in pat]], {"how": r.choice(["np", "method"]), "via": r.choice(RLV)}, False
    if k == "reduce":
        name = r.choice(["sum", "any", "all", "max", "mean"])
        return ["rl_reduce", name, dt, rnd_runs(r, dt, n, nan_ok=False, small=True)], {"how": r.choice(["np", "method"]), "via": r.choice(RLV)}, False
    if k == "hist":
        hdt = r.choice(["i8", "f8", "u1", "i2"])
        return ["rl_hist", hdt, rnd_runs(r, hdt, n, nan_ok=False), r.choice([0, 0, 3, 7])], {"density": r.random() < 0.4, "hrange": r.choice([None, None, [0, 5], [-3, 3], [1, 100]])}, False
    mixed = r.random() < 0.4
    arrs = []
    for _ in range(r.randint(1, 4)):
        d = r.choice(C16_DTS) if mixed else dt
        arrs.append([d, rnd_runs(r, d, r.choice([1, 2, 4, 7]), nan_ok=not mixed)])
    return ["rl_concat", arrs], {"via": r.choice(RLV)}, False


def rnd_obj(r, dt=None, kinds=("matrix", "ragged", "ragged", "intervals")):
    dt = dt or r.choice(["i8", "i8", "u1", "b1", "f8", "i2", "u2", "i1"])
    k = r.choice(kinds)
    small = not (dt in ("u1", "i2", "u2", "i1") and r.random() < 0.4)     # narrow dtypes also with their extremes: totals leave the dtype
    if k == "matrix":
        n, m = r.randint(1, 4), r.randint(1, 6)
        return ["matrix", dt, [rnd_runs(r, dt, m, nan_ok=False, small=small) for _ in range(n)]]
    if k == "ragged":
        n = r.randint(1, 5)
        return ["ragged", dt, [rnd_runs(r, dt, r.randint(1, 7), nan_ok=False, small=small) for _ in range(n)]]
    n, L = r.randint(1, 4), r.randint(1, 8)
    st = [r.randint(0, L - 1) for _ in range(n)]
    en = [r.randint(s + 1, L) for s in st]
    for i in range(n):
        if r.random() < 0.3:                     # an interval covering its whole row (its last run is the whole row)
            st[i], en[i] = 0, L
    return ["intervals", st, en, L]


OBJV = ["direct", "direct", "rev", "tail", "perm", "mask"]


def nrows(obj):
    return len(obj[2]) if obj[0] != "intervals" else len(obj[1])


def gen_c17(r):
    k = r.choice(["getitem", "getitem", "getitem", "func", "func", "ufunc", "concat"])
    if k == "getitem":
        obj = rnd_obj(r)
        n = nrows(obj)
        rs = r.choice([["int", r.randint(-n - 1, n)], rnd_slice(r, n), ["list", [r.randint(-n, n - 1) for _ in range(r.randint(1, 4))]],
                       ["mask", [r.randint(0, 1) for _ in range(n)]], ["all"], rnd_slice(r, n)])
        c = r.random()
        L = max(len(x) for x in obj[2]) if obj[0] != "intervals" else obj[3]
        if c < 0.3:
            cs = ["none"]
        elif c < 0.45:
            cs = ["int", r.randint(-L - 1, L)]
        else:
            cs = rnd_slice(r, L)
        return ["rl2_getitem", obj, rs, cs], {"tuple1": r.random() < 0.2, "objvia": r.choice(OBJV)}, False
    if k == "func" and r.random() < 0.15:
        from .enc import limbs
        wdt = r.choice(["i8", "u8", "u8"])
        base = r.choice([2 ** 53, 2 ** 60, 2 ** 62, 5]) if wdt == "i8" else r.choice([2 ** 53, 2 ** 63, 2 ** 64 - 40, 7])
        sign = -1 if wdt == "i8" and r.random() < 0.3 else 1
        o0 = rnd_obj(r, "i1", kinds=("matrix", "ragged"))
        obj = [o0[0], wdt, [[limbs(sign * (base + abs(v))) for v in row] for row in o0[2]]]
        return ["rl2_func", r.choice(["wsum", "wcolsum"]), obj], {"how": "method", "objvia": r.choice(OBJV)}, False
    if k == "func":
        obj = rnd_obj(r)
        name = r.choice(["to_array", "len", "size", "shape", "sum", "any", "all", "max", "mean", "argmax", "colsum", "colmean", "colcounts", "colany", "ravel"])
        return ["rl2_func", name, obj], {"how": r.choice(["method", "np"]), "objvia": r.choice(OBJV)}, False
    if k == "ufunc":
        obj = rnd_obj(r, kinds=("matrix", "ragged", "ragged"))
        a = ["obj", obj]
        if r.random() < 0.15:
            return ["rl2_ufunc", r.choice(UNARY), a, ["none"]], {}, False
        f = r.choice(BINARY)
        if r.random() < 0.5:
            pk = r.choice(["pyint", "pyint", "pyfloat", "pybool"])
            v = r.randint(0, 1) if pk == "pybool" else r.randint(0, 6) if pk == "pyint" else [r.randint(-9, 9), 1]
            b = ["py", pk, v]
        else:
            dt2 = r.choice(["i8", "f8", "u1", "b1"])
            b = ["col", dt2, [rnd_val(r, dt2) if dt2 != "i8" else r.randint(-4, 4) for _ in range(nrows(obj))]]
        if r.random() < 0.45:
            a, b = b, a
        return ["rl2_ufunc", f, a, b], {}, False
    dt = r.choice(["i8", "u1", "f8"])
    return ["rl2_concat", [rnd_obj(r, dt, kinds=("ragged",)) for _ in range(r.randint(1, 3))]], {}, False


GEN = {"C14": gen_c14, "C15": gen_c15, "C16": gen_c16, "C17": gen_c17}


def generate(prop, seed, n):
    r = random.Random(f"{prop}-{seed}")
    out = []
    for i in range(n):
        case, opts, strict = GEN[prop](r)
        if prop == "C17":
            opts = dict(opts, mlayout=r.choice(["C", "C", "F", "T"]))
            opts = dict(opts, ravia=r.choice(["rows", "rows", "rowview", "listview", "revview", "colview", "stepview", "ufunc", "flat", "assigned"]))
        if prop in ("C14", "C15", "C16", "C17"):
            opts = dict(opts, hi=r.choice([0, 48, 48, 16]))          # the high-bits realisation, where exec_rl.hi_ok allows it
        out.append({"id": i, "case": case, "opts": opts, "strict": strict})
    return out


# ------------------------------------------------------------------ BitArray (C13) and npdataclass (C18) share the "misc" family
def gen_c13_long(r):
    """local views of operations on arrays of several thousand registers (block-wise implementations, carries between distant
    registers): see exec_misc.op_bit_embedded"""
    from .exec_misc import long_array, int_to_dig
    b = r.choice([1, 2, 4, 8, 16, 32, 32])
    per = 64 // b
    regs = r.choice([257, 513, 1025, 1030, 2049, 2050, 4097])
    n = regs * per + r.randint(0, per - 1) - r.choice([0, 0, per])
    seed = r.randint(0, 5)
    arr = long_array(seed, n, b)["a"]
    k = r.choice(["bit_window", "bit_window", "bit_window", "bit_get", "bit_roundtrip"])
    w = r.randint(2, per) if k == "bit_window" else (1 if k == "bit_get" else r.randint(1, 6))
    edge = r.choice([256, 512, 1024, 2048, 4096, regs]) * per            # register-block boundaries of every power of two
    pos = r.choice([edge - r.randint(0, w + 1), edge - r.randint(0, w + 1), r.randint(0, n - w), n - w - r.randint(0, 3)])
    pos = max(0, min(pos, n - w))
    digs = [int_to_dig(x, b) for x in arr[pos:pos + w].tolist()]
    case = [k, b, digs, w] if k == "bit_window" else [k, b, digs, 0] if k == "bit_get" else [k, b, digs]
    return case, {"embed": {"seed": seed, "n": n, "pos": pos}, "indt": "u8"}, False


def gen_c13(r):
    if r.random() < 0.08:
        return gen_c13_long(r)
    b = r.choice([1, 2, 4, 8, 16, 32])
    per = 64 // b
    n = r.choice([0, 1, 2, per - 1, per, per + 1, 2 * per, 2 * per + 1, 3 * per + 2, r.randint(0, 3 * per + 5), r.randint(0, 200)])
    top = (1 << b) - 1
    pat = r.choice(["rand", "rand", "max", "alt"])

    def dig(i):
        v = r.randint(0, top) if pat == "rand" else top if pat == "max" else (top if i % 2 else 0)
        return [(v >> 16) & 0xFFFF, v & 0xFFFF] if b == 32 else v
    a = [dig(i) for i in range(n)]
    k = r.choice(["bit_roundtrip", "bit_get", "bit_getlist", "bit_getlist", "bit_window", "bit_window", "bit_len"])
    opts = {"indt": r.choice(["u1", "u2", "u4", "u8", "u8", "i1", "i2", "i4", "i8"]), "npidx": r.random() < 0.3, "listkind": r.choice(["list", "array"]), "again": r.random() < 0.5,
            "repack": r.random() < 0.4, "pre_w": r.choice([0, 0, 1, 2, 3, per]), "npw": r.choice([None, None, "i8", "i4", "u1", "i2"]),
            "idxdt": r.choice(["i8", "i8", "u1", "i1", "i2", "u2"])}
    if b >= 8 and opts["indt"] in ("i1",) or (b == 16 and opts["indt"] in ("i2",)) or (b == 32 and opts["indt"] in ("i4",)):
        opts["indt"] = "u8"
    if k == "bit_get":
        return [k, b, a, r.randint(0, max(n - 1, 0))], opts, False
    if k == "bit_getlist":
        m = r.choice(["rand", "run", "run", "desc"])
        if n == 0:
            l = []
        elif m == "rand":
            l = [r.randint(0, n - 1) for _ in range(r.randint(0, 12))]
        elif m == "run":
            s0 = r.randint(0, n - 1)
            l = list(range(s0, min(n, s0 + r.randint(1, per + 3))))
        else:
            l = list(range(n - 1, max(-1, n - 1 - r.randint(1, 9)), -1))
        return [k, b, a, l], opts, False
    if k == "bit_window":
        return [k, b, a, r.randint(1, per)], opts, False
    return [k, b, a], opts, False


def gen_c18(r):
    nf = r.randint(1, 3)
    names = ["a", "b", "c"][:nf]
    kinds = [r.choice(["1d", "1d", "2d"]) for _ in names]
    ws = [r.randint(1, 3) for _ in names]

    def tab(n, base):
        return [names, [["1d", [base + 10 * f + i for i in range(n)]] if kd == "1d" else ["2d", [[base + 100 * f + 10 * i + j for j in range(w)] for i in range(n)]]
                        for f, (kd, w) in enumerate(zip(kinds, ws))]]
    n = r.randint(0, 7)
    t = tab(n, 0)
    k = r.choice(["dc_new", "dc_len", "dc_getitem", "dc_getitem", "dc_getitem", "dc_iter", "dc_concat", "dc_concat", "dc_eq", "dc_astype", "vl_concat", "dc_bad"])
    inh = {"inherit": r.random() < 0.4, "listmask": r.random() < 0.5, "npint": r.random() < 0.3, "firstdt": r.choice([None, None, "u1", "i2", "i4"]), "layout": r.choice(["C", "C", "F", "T", "mixed"])}
    if k == "dc_getitem":
        from .drivers_ragged import rnd_slice
        sel = r.choice([["int", r.randint(-n - 1, n)], rnd_slice(r, n), ["list", [r.randint(-n, n - 1) for _ in range(r.randint(0, 5))] if n else []],
                        ["mask", [r.randint(0, 1) for _ in range(n)]]])
        return [k, t, sel], dict(inh), False
    if k == "dc_concat":
        ts = [tab(r.randint(0, 5), 1000 * i) for i in range(r.randint(1, 4))]
        return [k, ts], dict(inh), False
    if k == "dc_eq":
        t2 = tab(n if r.random() < 0.7 else r.randint(0, 7), 0 if r.random() < 0.6 else 7)
        return [k, t, t2], dict(inh), False
    if k == "dc_astype":
        want = r.sample(names, r.randint(1, nf))
        return [k, t, want], dict(inh), False
    if k == "vl_concat":
        ms = []
        for i in range(r.randint(1, 4)):
            w, m = r.randint(1, 4), r.randint(1, 3)
            ms.append([[100 * i + 10 * a_ + j + 1 for j in range(w)] for a_ in range(m)])
        return [k, ms], dict(inh), False
    if k == "dc_bad" and nf >= 2:
        t2 = tab(n + r.choice([1, 2]), 0)
        return ["dc_new", [names, [t2[1][0]] + t[1][1:]]], dict(inh), False
    return [k if k != "dc_bad" else "dc_new", t], dict(inh), False


GEN["C13"] = gen_c13
GEN["C18"] = gen_c18
