"""Known findings: genuine defects of the library that were recorded rather than repaired.

known_findings.json is read-only at run time.  Only entries with status "finding" suppress anything, and only
when the named classifier (a pure function of the mismatch record) says the mismatch is in the listed input class
AND the observed outcome equals what the mechanism predicts for that class.  Entries with status "fixed" are
documentation: they suppress nothing, so the violation is reported again if it ever returns."""
import os, json
from .common import VERIF

CLASSIFIERS = {}


def classifier(name):
    def deco(f):
        CLASSIFIERS[name] = f
        return f
    return deco


def load():
    p = os.path.join(VERIF, "known_findings.json")
    if not os.path.exists(p):
        return []
    return json.load(open(p))


def classify(prop, b, kf):
    for f in kf:
        if f.get("status") != "finding" or prop not in f.get("properties", [f.get("property")]):
            continue
        c = CLASSIFIERS.get(f.get("class"))
        if c is not None and c(b, f.get("params") or {}):
            return f
    return None


@classifier("pending_view_sees_parent_write")
def _pending_view(b, params):
    """A handle obtained by selection and not yet materialised shares its source's buffer; a later write to the source is
    visible in it (and in everything computed from it).  Recognised ONLY when the specification's mechanism level marks the
    handle stale AND the observed content is exactly what the mechanism level predicts for it."""
    return b.get("family") == "heap" and bool(b.get("stale")) and bool(b.get("mech_match"))
