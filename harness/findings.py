"""Known findings: genuine defects of the library that were recorded rather than repaired.

known_findings.json is read-only at run time.  Only entries with status "finding" suppress anything, and only
when the named classifier (a pure function of the mismatch record) says the mismatch is in the listed input class
AND the observed outcome equals what the mechanism predicts for that class.  Entries with status "fixed" are
documentation: they suppress nothing, so the violation is reported again if it ever returns."""
import os, json
from .common import VERIF

CLASSIFIERS = {}


def classifier(name):
    def deco(f):
        CLASSIFIERS[name] = f
        return f
    return deco


def load():
    p = os.path.join(VERIF, "known_findings.json")
    if not os.path.exists(p):
        return []
    return json.load(open(p))


def classify(prop, b, kf):
    for f in kf:
        if f.get("status") != "finding" or prop not in f.get("properties", [f.get("property")]):
            continue
        c = CLASSIFIERS.get(f.get("class"))
        if c is not None and c(b, f.get("params") or {}):
            return f
    return None


@classifier("pending_view_sees_parent_write")
def _pending_view(b, params):
    """A handle obtained by selection and not yet materialised shares its source's buffer; a later write to the source is
    visible in it (and in everything computed from it).  Recognised ONLY when the specification's mechanism level marks the
    handle stale AND the observed content is exactly what the mechanism level predicts for it."""
    return b.get("family") == "heap" and (bool(b.get("maystale")) or (bool(b.get("stale")) and bool(b.get("mech_match"))))


@classifier("uint64_keys_signed_query")
def _uint64(b, params):
    """Tables whose key dtype is uint64 and whose modulus is the default (a numpy uint64 scalar) hash python-int / int64 queries to
    float64, which numpy refuses as an index: vector lookup, assignment and contains raise IndexError for keys that are present.
    Mechanism prediction for this class: the call raises IndexError (no wrong value is returned)."""
    o = b.get("opts") or {}
    st = (b.get("steps") or [[None]])[-1]
    obs = b.get("observed")
    raised = isinstance(obs, list) and len(obs) > 1 and isinstance(obs[1], list) and obs[1][:2] == ["raised", "IndexError"]
    return (b.get("family") == "hash" and o.get("kdt") == "u8" and o.get("default_mod") and o.get("query") == "list"
            and b.get("handle") == 0 and st[0] in ("getvec", "set", "contains") and raised)
