"""Command line of the verification framework."""
import os, sys, json, traceback


def main(argv):
    if not argv:
        print(__doc__)
        return 2
    args = list(argv)
    if "--tier" in args:
        i = args.index("--tier")
        os.environ["VERIF_TIER"] = args[i + 1]
        del args[i:i + 2]
    os.environ.setdefault("VERIF_TIER", "quick")
    cmd = args[0]
    try:
        if cmd == "setup":
            from . import setup
            return setup.run()
        if cmd == "selftest":
            from . import selftest
            return selftest.run(args[1:])
        if cmd == "replay":
            from . import replaycmd
            return replaycmd.run(args[1])
        from . import checks
        if cmd in checks.CHECKS:
            return checks.CHECKS[cmd]()
        print("unknown command", cmd)
        return 2
    except Exception as e:                       # machinery failure: never exit 1
        traceback.print_exc()
        print(f"MACHINERY-FAILURE: {type(e).__name__}: {e}")
        return 2


if __name__ == "__main__":
    sys.exit(main(sys.argv[1:]))
