"""Seeded drivers for the RaggedArray family: random abstract cases beyond what TLC enumerates
(all dtypes, larger shapes, bounds far beyond the rows, dtype extremes).  Plain random.Random(seed)."""
import random
from .common import NONE
from .props import RVIAS

INT_DTS = ["i1", "i2", "i4", "i8", "u1", "u2", "u4", "u8"]
FLT_DTS = ["f2", "f4", "f8"]
ALL_DTS = ["b1"] + INT_DTS + FLT_DTS


def rnd_lens(r, maxrows=7, maxlen=6):
    n = r.choice([0, 1, 1, 2, 3, 3, 4, 5, maxrows])
    mode = r.random()
    if mode < 0.15:
        return [0] * n
    return [0 if r.random() < 0.3 else r.randint(1, maxlen) for _ in range(n)]


_NEGZERO = [0.0]          # set by the generators of value-moving operations only (the specification has no signed zero arithmetic)


def rnd_val(r, dt, arith=True):
    """a value of dtype dt in the abstract encoding; arith=True keeps 32/64-bit values small (no-overflow regime)"""
    k = dt[0]
    if dt == "b1":
        return r.randint(0, 1)
    if k == "f":
        if _NEGZERO[0] and r.random() < _NEGZERO[0]:
            return [0, r.choice([-1, -1, 1])]           # zeros of both signs: operations that move values must keep the sign
        if r.random() < 0.04:
            return r.choice([[0, 0], [1, 0], [-1, 0]]) if not arith or True else [0, 1]
        num = r.randint(-24, 24)
        den = r.choice([1, 1, 2, 4]) if dt != "f2" else r.choice([1, 2])
        from math import gcd
        g = gcd(abs(num), den) or 1
        return [num // g, den // g]
    bits = int(dt[1:]) * 8
    lo, hi = (0, 2 ** bits - 1) if k == "u" else (-(2 ** (bits - 1)), 2 ** (bits - 1) - 1)
    if bits <= 16:
        c = r.random()
        if c < 0.25:
            return r.choice([lo, hi, lo + 1, hi - 1])
        return r.randint(max(lo, -9), min(hi, 9))
    return r.randint(max(lo, -9), 9)


def finite(v):
    return not (isinstance(v, list) and v[1] == 0)


def rnd_arr(r, dt=None, lens=None, finite_only=False, distinct=False, infs=0.0, negzero=0.0):
    """infs > 0: a float array without NaN in which that share of the cells is +inf / -inf (repeated infinities included)"""
    dt = dt or r.choice(ALL_DTS)
    lens = rnd_lens(r) if lens is None else lens
    rows = []
    k = 0
    for l in lens:
        row = []
        for _ in range(l):
            if distinct and dt in ("i8", "i4"):
                v = 10 + k
                k += 1
            elif infs and dt[0] == "f" and r.random() < infs:
                v = [r.choice([1, 1, -1]), 0]
            elif negzero and dt[0] == "f" and r.random() < negzero:
                v = [0, r.choice([-1, -1, 1])]                  # zeros of both signs: operations that move values must keep the sign
            else:
                v = rnd_val(r, dt)
                while finite_only and not finite(v):
                    v = rnd_val(r, dt)
            row.append(v)
        rows.append(row)
    return [dt, rows]


def rnd_bound(r, n):
    if r.random() < 0.03:
        return r.choice([2 ** 30, 2 ** 30, -2 ** 30, 100000])      # far beyond any row: index arithmetic must not depend on the index width
    return r.choice([NONE, NONE, 0, 1, -1, 2, -2, n, -n, n - 1, -n - 1, n + 1, n + 3, -n - 4, r.randint(-12, 12)])


def rnd_slice(r, n):
    return ["slice", rnd_bound(r, n), rnd_bound(r, n), r.choice([NONE, NONE, 1, -1, 2, -2, 3, -3, 5, -7])]


def rnd_rsel(r, n, norepeat=False):
    k = r.choice(["int", "slice", "slice", "slice", "list", "mask", "all", "array"])
    if k == "int":
        return ["int", r.randint(-n - 2, n + 1)]
    if k == "slice":
        return rnd_slice(r, n)
    if k in ("list", "array"):
        if n == 0:
            return ["list", []]
        if norepeat:
            q = list(range(n))
            r.shuffle(q)
            q = q[:r.randint(0, n)]
            return ["list", [i if r.random() < 0.6 else i - n for i in q]]
        q = [r.randint(-n, n - 1) for _ in range(r.randint(0, 6))]
        if q and r.random() < 0.12:
            q[r.randrange(len(q))] = r.choice([n, n + 1, -n - 1, n + 5])          # an entry that does not exist: must be refused
        return ["list", q]
    if k == "mask":
        return ["mask", [r.randint(0, 1) for _ in range(n)]]
    return ["all"]


def rnd_csel(r, maxlen):
    k = r.choice(["none", "none", "int", "slice", "slice", "slice", "all"])
    if k == "int":
        return ["int", r.randint(-maxlen - 2, maxlen + 1)]
    if k == "slice":
        return rnd_slice(r, maxlen)
    return [k]


def opts_for(r, op):
    from .props import PRES
    o = {"via": r.choice(RVIAS), "pre": r.choice(PRES + [None, None]), "hi": r.choice([0, 48, 48, 16])}
    if op in ("getitem", "setitem"):
        o["spelling"] = r.choice(["plain", "plain", "tuple", "empty", "numpy", "numpy32", "pylist", "numpy8"])
    if op == "setitem":
        o["npscalar"] = r.random() < 0.3
        o["collist"] = r.random() < 0.3
    if op in ("ufunc",):
        o["how"] = r.choice(["ufunc", "operator"])
        o["zerod"] = r.random() < 0.4
    if op == "scan":
        o["axis1"] = r.random() < 0.3
        o["defaults"] = r.random() < 0.4
    if op in ("reduce", "scan", "nonzero", "col"):
        o["how"] = r.choice(["method", "np", "positional"] if op == "reduce" else ["method", "np"])
    if op in ("where", "subset"):
        o["via2"] = r.choice(RVIAS)
    if op == "ragged_slice":
        o["how"] = r.choice(["fn", "nps"])
        o["layout"] = r.choice(["C", "F", "T", "strided"])
    return o


# ------------------------------------------------------------------ per-property generators
def gen_c01(r):
    dt = r.choice(ALL_DTS)
    lens = rnd_lens(r, 9, 7)
    if r.random() < 0.05:
        lens = [r.randint(3, 9) for _ in range(r.randint(22, 32))]       # more than 127 cells: row lengths given in a narrow dtype must still add up
    elif r.random() < 0.08:
        lens = [r.randint(0, 1) for _ in range(r.randint(1, 9))]
    arr = rnd_arr(r, dt, lens)
    c = r.random()
    flat = [v for row in arr[1] for v in row]
    if c < 0.4:
        ctor = ["rows", dt, arr[1]]
    elif c < 0.8:
        L = list(lens)
        if r.random() < 0.3 and True:
            # a size that disagrees with the lengths: must be refused
            d = r.choice([-2, -1, 1, 2])
            if d > 0:
                flat = flat + [rnd_val(r, dt) for _ in range(d)]
            elif len(flat) >= -d:
                flat = flat[:len(flat) + d]
            else:
                L = L + [1]
        ctor = ["flat", dt, flat, L]
    else:
        n, m = r.randint(1, 4), r.randint(0, 4)
        ctor = ["matrix", dt, rnd_arr(r, dt, [m] * n)[1]]
    lens2 = [len(x) for x in ctor[2]] if ctor[0] != "flat" else ctor[3]
    size = sum(lens2)
    rk = r.choice(["len", "size", "lengths", "shape", "dtype", "iter", "tolist", "copy", "ravel", "astype", "to_numpy",
                   "save_load", "starts", "ends", "shape_size", "index_array", "ravel_mi", "unravel"])
    if rk == "astype":
        reader = ["astype", r.choice(ALL_DTS)]
    elif rk == "ravel_mi":
        cells = [(i, j) for i, l in enumerate(lens2) for j in range(l)]
        pick = [r.choice(cells) for _ in range(r.randint(0, 4))] if cells else []
        reader = ["ravel_mi", [p[0] for p in pick], [p[1] for p in pick]]
    elif rk == "unravel":
        reader = ["unravel", [r.randrange(size) for _ in range(r.randint(0, 5))] if size else []]
    else:
        reader = [rk]
    o = opts_for(r, "readback")
    o["lkind"] = r.choice(["list", "array", "tuple", "i1arr", "u2arr", "boolarr"])
    o["layout"] = r.choice(["C", "F", "T", "strided"])
    return ["readback", ctor, reader], o, True


def rnd_pairs(r, lens, distinct=False):
    cells = [(i, j) for i, l in enumerate(lens) for j in range(l)]
    n = len(lens)
    k = r.randint(1, 5)
    if not cells:
        return [r.randint(-1, 1) for _ in range(k)], [0] * k
    if distinct:
        r.shuffle(cells)
        pick = cells[:k]
    else:
        pick = [r.choice(cells) for _ in range(k)]
    rows = [i if r.random() < 0.6 else i - n for i, _ in pick]
    cols = [j if r.random() < 0.5 else j - lens[i] for i, j in pick]
    if r.random() < 0.15:                          # one pair that does not exist: refused
        q = r.randrange(len(pick))
        cols[q] = r.choice([lens[pick[q][0]], -lens[pick[q][0]] - 1])
    return rows, cols


def gen_c02(r):
    lens = rnd_lens(r, 8, 6)
    if r.random() < 0.05:
        arr = rnd_arr(r, r.choice(["i8", "i4", "f8", "u1", "b1"]), lens, distinct=True)
        rows, cols = rnd_pairs(r, lens)
        o = opts_for(r, "getitem")
        o["listkind"] = r.choice(["list", "array"])
        return ["getpairs", arr, rows, cols], o, False
    if r.random() < 0.04:
        lens = [r.randint(0, 6) for _ in range(r.randint(20, 40))]
    arr = rnd_arr(r, r.choice(["i8", "i8", "i4", "f8", "b1", "u1", "i2"]), lens, distinct=True)
    n = len(lens)
    if r.random() < 0.06:
        rs = ["rmask", [[r.randint(0, 1) for _ in row] for row in arr[1]]]
        cs = ["none"]
    else:
        rs = rnd_rsel(r, n)
        cs = rnd_csel(r, max(lens) if lens else 0)
        if rs[0] == "array":
            rs[0] = "list"
    return ["getitem", arr, rs, cs], opts_for(r, "getitem"), False


def sel_shape(arr, rs, cs):
    """row lengths of the ragged selection (python semantics) or None if not a ragged selection"""
    rows = arr[1]
    n = len(rows)
    try:
        if rs[0] == "slice":
            R = list(range(n))[slice(*[None if v == NONE else v for v in rs[1:4]])]
        elif rs[0] == "list":
            R = [i % n if -n <= i < n else None for i in rs[1]]
            if None in R:
                return None
        elif rs[0] == "mask":
            R = [i for i, m in enumerate(rs[1]) if m]
        elif rs[0] == "all":
            R = list(range(n))
        else:
            return None
        if cs[0] in ("none", "all"):
            return [len(rows[i]) for i in R]
        if cs[0] == "slice":
            sl = slice(*[None if v == NONE else v for v in cs[1:4]])
            return [len(rows[i][sl]) for i in R]
    except Exception:
        return None
    return None


def gen_c03_big(r):
    """local views of `ra[::-1] = ra` / `ra[:, ::-1] = ra` on an array of more than 65 536 cells (exec_ragged.op_setitem_embedded)"""
    n = r.choice([21846, 22000, 30000, 43691, 44000])          # 3n cells: just above 65 536, 131 072
    kind = r.choice(["rowrev", "colrev"])
    dt = r.choice(["i8", "i4"])
    edge = r.choice([65536 // 3, 65536 // 3 + 1, 131072 // 3, n // 2, 0, n - 1])
    i = max(0, min(n - 1, edge + r.randint(-2, 2))) if r.random() < 0.7 else r.randrange(n)
    row = lambda p: [3 * p, 3 * p + 1, 3 * p + 2]
    if kind == "rowrev":
        pos = [i, n - 1 - i] if i != n - 1 - i else [i]
        rows = [row(p) for p in pos]
        case = ["setitem", [dt, rows], ["slice", NONE, NONE, -1], ["none"], ["ragged", rows]]
    else:
        pos = [i]
        case = ["setitem", [dt, [row(i)]], ["slice", NONE, NONE, NONE], ["slice", NONE, NONE, -1], ["ragged", [row(i)]]]
    return case, {"embed": {"n": n, "kind": kind, "pos": pos}}, False


def gen_c03(r):
    if r.random() < 0.01:
        return gen_c03_big(r)
    lens = rnd_lens(r, 7, 5)
    dt = r.choice(["i8", "i8", "i4", "f8", "f8", "u1", "i2", "b1", "f4"])
    arr = rnd_arr(r, dt, lens, distinct=True)
    n = len(lens)
    if r.random() < 0.05:
        rows, cols = rnd_pairs(r, lens, distinct=r.random() < 0.8)
        val = ["scalar", rnd_val(r, dt)] if r.random() < 0.5 else ["flat", [rnd_val(r, dt) for _ in rows]]
        o = opts_for(r, "setitem")
        o["listkind"] = r.choice(["list", "array"])
        o["hi"] = 0
        return ["setpairs", arr, rows, cols, val], o, False
    if r.random() < 0.08:
        rs = ["rmask", [[r.randint(0, 1) for _ in row] for row in arr[1]]]
        cs = ["none"]
        cnt = sum(sum(m) for m in rs[1])
        val = ["scalar", rnd_val(r, dt)] if r.random() < 0.5 or cnt == 0 else ["flat", [rnd_val(r, dt) for _ in range(cnt)]]
        return ["setitem", arr, rs, cs, val], opts_for(r, "setitem"), False
    rs = rnd_rsel(r, n, norepeat=True)
    if rs[0] == "array":
        rs[0] = "list"
    cs = rnd_csel(r, max(lens) if lens else 0)
    shp = sel_shape(arr, rs, cs)
    vk = r.choice(["scalar", "scalar", "ragged", "ragged", "col", "flat"])
    if vk == "ragged":
        L = list(shp) if shp is not None and r.random() < 0.75 else rnd_lens(r, 4, 4)
        val = ["ragged", rnd_arr(r, dt, L)[1]]
    elif vk == "col":
        k = len(shp) if shp is not None else r.randint(1, 3)
        val = ["col", [rnd_val(r, dt) for _ in range(k)]] if k else ["scalar", rnd_val(r, dt)]
        if k and dt[0] == "f" and r.random() < 0.35:
            val[1][r.randrange(k)] = r.choice([[1, 0], [-1, 0]])          # an infinite entry next to finite ones
        elif k and dt[0] == "f" and r.random() < 0.6:
            val = ["col", [[0, r.choice([1, -1])] for _ in range(k)]]      # zeros of either sign: equal as numbers, different as values
    elif vk == "flat":
        # the number of addressed cells of a row / flat selection
        cnt = r.randint(1, 4)
        try:
            rows = arr[1]
            if rs[0] == "int" and -n <= rs[1] < n:
                row = rows[rs[1]]
                cnt = len(row) if cs[0] in ("none", "all") else len(row[slice(*[None if v == NONE else v for v in cs[1:4]])]) if cs[0] == "slice" else 1
            elif cs[0] == "int":
                s2 = sel_shape(arr, rs, ["none"])
                cnt = len(s2) if s2 is not None else cnt
        except Exception:
            pass
        val = ["flat", [rnd_val(r, dt) for _ in range(cnt)]] if cnt else ["scalar", rnd_val(r, dt)]
    else:
        val = ["scalar", rnd_val(r, dt)]
    return ["setitem", arr, rs, cs, val], opts_for(r, "setitem"), False


BINARY = ["add", "subtract", "multiply", "maximum", "minimum", "less", "less_equal", "greater", "greater_equal", "equal",
          "not_equal", "logical_and", "logical_or", "logical_xor", "bitwise_and", "bitwise_or", "bitwise_xor"]
UNARY = ["negative", "absolute", "invert", "logical_not"]
C04_DTS = ["b1", "i1", "i2", "i4", "i8", "u1", "u2", "f2", "f4", "f8"]


def gen_c04(r):
    lens = rnd_lens(r, 6, 5)
    dt = r.choice(C04_DTS)
    a = ["ra", rnd_arr(r, dt, lens)]
    if r.random() < 0.15:
        return ["ufunc", r.choice(UNARY), a, ["none"]], opts_for(r, "ufunc"), True
    f = r.choice(BINARY)
    dt2 = r.choice(C04_DTS)
    k = r.choice(["ra", "ra", "ra_other", "np", "py", "py", "col", "col", "collist"])
    if k == "ra":
        b = ["ra", rnd_arr(r, dt2, lens)]
    elif k == "ra_other":
        l2 = list(lens)
        if l2 and r.random() < 0.5:           # same total size, different lengths: must still be refused
            i, j = r.randrange(len(l2)), r.randrange(len(l2))
            if i != j and l2[i] > 0:
                l2[i] -= 1
                l2[j] += 1
            else:
                l2 = l2 + [1]
        else:
            l2 = rnd_lens(r, 6, 5)
        b = ["ra", rnd_arr(r, dt2, l2)]
    elif k == "np":
        b = ["np", dt2, rnd_val(r, dt2)]
    elif k == "py":
        pk = r.choice(["pybool", "pyint", "pyint", "pyfloat"])
        v = r.randint(0, 1) if pk == "pybool" else r.randint(-5, 9) if pk == "pyint" else [r.randint(-9, 9), r.choice([1, 2, 4])]
        if pk == "pyfloat":
            from math import gcd
            g = gcd(abs(v[0]), v[1]) or 1
            v = [v[0] // g, v[1] // g]
        if pk == "pyint" and dt[0] == "u":
            v = abs(v)
        b = ["py", pk, v]
    elif k == "col":
        b = ["col", dt2, [rnd_val(r, dt2) for _ in lens]]
        if lens and dt2[0] == "f" and r.random() < 0.5:
            b[2][r.randrange(len(lens))] = r.choice([[1, 0], [-1, 0]])
    else:
        pk = r.choice(["pyint", "pyfloat", "pybool"])
        b = ["collist", pk, [r.randint(0, 1) if pk == "pybool" else r.randint(-5, 9) if pk == "pyint" else [r.randint(-9, 9), 1] for _ in lens]]
    if r.random() < 0.4 and k != "ra_other":
        a, b = b, a
    return ["ufunc", f, a, b], opts_for(r, "ufunc"), True


RED_NAMES = ["sum", "prod", "any", "all", "max", "min", "mean", "argmax", "argmin"]
RED_UF = ["add", "multiply", "bitwise_and", "bitwise_or", "bitwise_xor", "logical_and", "logical_or", "logical_xor", "maximum", "minimum"]


def small_arr(r, dt, lens):
    """values small enough that products of a row stay in the no-overflow regime"""
    arr = rnd_arr(r, dt, lens, finite_only=True)
    if dt not in ("i1", "u1", "i2", "u2", "b1") and dt[0] != "f":
        arr[1] = [[max(-3, min(3, v)) if dt[0] == "i" else min(3, v) for v in row] for row in arr[1]]
    if dt[0] == "f":
        arr[1] = [[[max(-3, min(3, v[0])), v[1]] for v in row] for row in arr[1]]
    return arr


def gen_c05(r):
    lens = rnd_lens(r, 7, 4)
    if r.random() < 0.06:
        o = opts_for(r, "reduce")
        o["hi"] = 0
        o["how"] = r.choice(["method", "np"])
        return ["wreduce", r.choice(["sum", "sum", "total"]), wide_arr(r, lens)], o, False
    dt = r.choice(["b1", "i1", "u1", "i2", "i8", "i4", "u2", "f8", "f4"])
    arr = small_arr(r, dt, lens)
    if r.random() < 0.3:
        name = ["r", r.choice(RED_UF)]
        axis, keep = r.choice([-1, 1]), 0
    else:
        name = ["n", r.choice(RED_NAMES)]
        axis = r.choice([-1, -1, 1, NONE])
        keep = 1 if axis != NONE and r.random() < 0.25 else 0
    if name[1] in ("prod", "multiply"):              # products are promoted to 64 bit: keep them inside TLC's integers
        arr[1] = [[(max(-2, min(2, v)) if not isinstance(v, list) else [max(-2, min(2, v[0])), 1]) for v in row] for row in arr[1]]      # |product of <= 28 cells| < 2**31, integral floats
    return ["reduce", name, arr, axis, keep], opts_for(r, "reduce"), False


def wide_arr(r, lens):
    """an int64 / uint64 array with values beyond 2**53 / 2**63, as 16-bit limbs"""
    from .enc import limbs
    wdt = r.choice(["i8", "u8"])
    base = r.choice([2 ** 53, 2 ** 60, 2 ** 62, 5]) if wdt == "i8" else r.choice([2 ** 53, 2 ** 63, 2 ** 64 - 40, 7])
    sign = -1 if wdt == "i8" and r.random() < 0.3 else 1
    ext = [-2 ** 63, 2 ** 63 - 1] if wdt == "i8" else [2 ** 64 - 1, 2 ** 63]

    def cell():
        c = r.random()          # large values next to small ones and to the extremes of the dtype (sums that do not fit are unspec)
        return sign * (base + r.randint(0, 9)) if c < 0.55 else (r.randint(-9, 9) if wdt == "i8" else r.randint(0, 9)) if c < 0.85 else r.choice(ext)
    return [wdt, [[limbs(cell()) for _ in range(l)] for l in lens]]


def gen_c07(r):
    lens = rnd_lens(r, 7, 5)
    if r.random() < 0.08:
        o = opts_for(r, "scan")
        o["hi"] = 0
        return ["wreduce", r.choice(["cumsum", "sort", "sort", "unique"]), wide_arr(r, lens)], o, False
    name = r.choice(["cumsum", "acc_add", "acc_subtract", "acc_bitwise_xor", "sort", "unique", "unique_counts", "diff", "diff"])
    dt = r.choice(["i1", "u1", "i2", "u2", "i4", "i8", "b1", "f8", "f4", "u4"])
    arr = rnd_arr(r, dt, lens, finite_only=True, infs=0.3 if r.random() < 0.3 else 0.0)
    n = r.randint(0, 4) if name == "diff" else 0
    return ["scan", name, arr, n], opts_for(r, "scan"), False


def gen_c08(r):
    k = r.choice(["concat", "concat", "like", "pad", "nonzero", "where", "subset", "ragged_slice", "ragged_slice", "maskidx"])
    dt = r.choice(["i8", "i4", "u1", "b1", "f8", "i2"])
    if k == "concat":
        axis = r.choice([0, 0, -1, 1])
        mixed = r.random() < 0.35
        dts = [r.choice(["i8", "f8", "u1", "i2", "b1"]) if mixed else dt for _ in range(4)]
        if axis == 0:
            arrs = [rnd_arr(r, dts[i], rnd_lens(r, 4, 4), finite_only=True) for i in range(r.randint(1, 4))]
        else:
            n = r.randint(1, 4)
            arrs = [rnd_arr(r, dts[i], [r.choice([0, 0, 1, 2, 3]) for _ in range(n)], finite_only=True) for i in range(r.randint(1, 3))]
        return ["concat", arrs, axis], opts_for(r, "concat"), False
    lens = rnd_lens(r, 6, 5)
    arr = rnd_arr(r, dt, lens, finite_only=True)
    if k == "like":
        return ["like", r.choice(["zeros", "ones", "empty"]), arr, r.choice(["same", "same", "i8", "f8", "b1", "u1"])], opts_for(r, "like"), True
    if k == "pad":
        return ["pad", arr, r.choice(["left", "right"]), rnd_val(r, dt) if dt != "f8" else [r.randint(-3, 3), 1]], opts_for(r, "pad"), False
    if k == "nonzero":
        arr = rnd_arr(r, r.choice(["b1", "b1", "i8", "u1", "f8"]), lens)
        arr[1] = [[(0 if not isinstance(v, list) else [0, 1]) if r.random() < 0.4 else v for v in row] for row in arr[1]]
        return ["nonzero", arr], opts_for(r, "nonzero"), False
    mask = ["b1", [[r.randint(0, 1) for _ in row] for row in arr[1]]]
    if k == "where":
        y = ["ra", rnd_arr(r, dt, lens, finite_only=True)] if r.random() < 0.7 else ["py", rnd_val(r, dt) if dt[0] != "f" else [2, 1]]
        return ["where", mask, arr, y], opts_for(r, "where"), False
    if k == "subset":
        return ["subset", arr, mask], opts_for(r, "subset"), False
    if k == "maskidx":
        return ["getitem", arr, ["rmask", mask[1]], ["none"]], opts_for(r, "getitem"), False
    # ragged_slice
    ik = r.choice(["ra", "ra", "1d", "2d"])
    if ik == "ra":
        inp = ["ra", arr]
        base = lens
    elif ik == "1d":
        m = r.randint(0, 7)
        inp = ["1d", dt, [rnd_val(r, dt) for _ in range(m)]]
        base = [m] * r.randint(0, 4)
    else:
        n, m = r.randint(0, 4), r.randint(0, 5)
        inp = ["2d", dt, rnd_arr(r, dt, [m] * n)[1]]
        base = [m] * n
    if r.random() < 0.15:
        base_bad = [l + 2 for l in base]      # outside the rows: out of claim, exercised anyway
    else:
        base_bad = base
    st = ["none"] if r.random() < 0.2 else ["vec", [r.randint(0, l) for l in base_bad]]
    en = ["none"] if r.random() < 0.2 else ["vec", [r.randint(-l, l) for l in base_bad]]
    return ["ragged_slice", inp, st, en], opts_for(r, "ragged_slice"), False


def gen_c09(r):
    lens = rnd_lens(r, 8, 7)
    if r.random() < 0.2:
        lens = lens + [r.randint(8, 12)]
    dt = r.choice(["b1", "i1", "u1", "i2", "u2", "u2", "i8", "u4", "f8", "f4", "f2"])
    arr = rnd_arr(r, dt, lens, finite_only=True)
    if dt == "f2" and r.random() < 0.6:
        # large float16 values, column-wise nearly constant: the totals leave the float16 range, the means do not
        pal = [60000, 30000, 65504, 32768, 1024, 2048, 40960, 3, 5]
        cv = [r.choice(pal) for _ in range(max(lens) if lens else 0)]
        arr = [dt, [[[cv[j] if r.random() < 0.85 else r.choice(pal), 1] for j in range(l)] for l in lens]]
    name = r.choice(["colsum", "colsum", "colmean", "colcounts", "colvalues"])
    if r.random() < 0.004:
        # a tall array: millions of equal rows of a 32-bit dtype near its extremes (totals beyond 2**53)
        from .enc import limbs
        tdt = r.choice(["u4", "i4"])
        top = 2 ** 32 - 1 if tdt == "u4" else 2 ** 31 - 1
        row = [limbs(r.choice([top, top - 1, top - r.randint(0, 1000), -top if tdt == "i4" else 3, r.randint(0, 9)])) for _ in range(r.randint(1, 3))]
        return ["wcolsum_rep", tdt, row, r.choice([2200000, 2600000, 4194304])], {"how": r.choice(["method", "np"]), "hi": 0}, False
    if r.random() < 0.12 and sum(lens):
        from .enc import limbs
        arr = wide_arr(r, lens)
        o = opts_for(r, "col")
        o["hi"] = 0
        return ["col", "wcolsum", arr, 0], o, False
    j = r.randint(0, max(lens) if lens else 0) if name == "colvalues" else 0
    return ["col", name, arr, j], opts_for(r, "col"), False


def gen_c19x(r):
    """cases aimed at the index-width configuration (used by the C19 check only): many rows, narrow numpy scalars / arrays as row
    indices, column selectors next to them, bounds far beyond the rows"""
    n = r.choice([64, 65, 100, 127, 128, 129, 140])
    lens = [r.choice([0, 1, 2, 2, 3]) for _ in range(n)]
    arr = rnd_arr(r, r.choice(["i8", "i4", "u1"]), lens, distinct=True)
    k = r.random()
    if k < 0.5:
        rs = ["int", r.choice([r.randint(60, n - 1), r.randint(-n, -60), n - 1, -n, 63, 64, 127, 128 % n])]
    elif k < 0.8:
        rs = ["list", [r.choice([r.randint(0, n - 1), r.randint(-n, -1)]) for _ in range(r.randint(1, 4))]]
    else:
        rs = rnd_slice(r, n)
    cs = r.choice([rnd_slice(r, 3), rnd_slice(r, 3), ["none"], ["int", r.randint(-3, 2)]])
    o = opts_for(r, "getitem")
    o["spelling"] = r.choice(["numpy8", "numpy8", "numpy32", "numpy", "plain"])
    o["via"] = r.choice(["flat", "flat", "rowview", "listview", "nprows"])
    o["hi"] = 0
    if r.random() < 0.3:
        val = ["scalar", rnd_val(r, arr[0])]
        return ["setitem", arr, rs, cs, val], o, False
    return ["getitem", arr, rs, cs], o, False


GEN = {"C19x": gen_c19x, "C01": gen_c01, "C02": gen_c02, "C03": gen_c03, "C04": gen_c04, "C05": gen_c05, "C07": gen_c07, "C08": gen_c08, "C09": gen_c09}


def generate(prop, seed, n):
    r = random.Random(f"{prop}-{seed}")
    out = []
    for i in range(n):
        _NEGZERO[0] = 0.12 if prop in ("C01", "C02", "C03", "C08") and r.random() < 0.4 else 0.0
        case, opts, strict = GEN[prop](r)
        if case[0] in ("ufunc", "reduce", "scan", "col"):
            assert not _NEGZERO[0] or prop not in ("C04", "C05", "C07", "C09")
        out.append({"id": i, "case": case, "opts": opts, "strict": strict})
    _NEGZERO[0] = 0.0
    return out
