"""Execute a program of the HashTable / Counter / HashSet machine (spec/abs/HashTable.tla) on the real classes.

Steps: ["new", ks, vals, mod, kind] | ["get", t, k] | ["getvec", t, ks] | ["set", t, ks, vals] | ["fill", t, v] |
       ["contains", t, ks] | ["containsone", t, k] | ["zeros_like", t] | ["ones_like", t] | ["add", t1, t2] |
       ["eq", t1, t2] | ["items", t] | ["to_dict", t] | ["count", t, batch] | ["countrep", t, v, n, tail, where]
Keys are integers or 4-limb tuples (2**62-size keys).  After every step every live table is observed through a vector
lookup of its own keys on a deep copy (shadow read), in construction order."""
import copy, warnings
import numpy as np
from .common import use_repo
from .enc import DT2NP, dt_of, enc_val, enc_float, unlimbs, limbs

use_repo()
warnings.simplefilter("ignore")
from npstructures import HashTable, Counter, HashSet  # noqa: E402


def key_int(k, kdt="i8"):
    # limb tuples carry the 64-bit two's-complement pattern of the TRUE integer (a query may lie outside the key dtype)
    return unlimbs(k, "u8" if kdt == "u8" else "i8") if isinstance(k, (list, tuple)) else int(k)


def enc_key(k, wide):
    return limbs(int(k)) if wide else int(k)


def enc_value(v):
    if isinstance(v, (float, np.floating)):
        f = float(v)
        return int(f) if f == int(f) and abs(f) < 2 ** 31 else enc_float(f)
    v = int(v)
    return v if abs(v) < 2 ** 31 else (2 ** 31 - 1 if v > 0 else -(2 ** 31 - 1))     # outside TLC's integers: saturate (never a modelled value)


class T:
    def __init__(self, obj, ks, kdt, wide, kind, src_keys=None, src_vals=None):
        self.obj, self.ks, self.kdt, self.wide, self.kind = obj, ks, kdt, wide, kind
        self.src_keys, self.src_vals = src_keys, src_vals          # the caller's arrays the table was built from
        self.src_snapshot = (None if src_keys is None else src_keys.copy(), None if src_vals is None else src_vals.copy())

    def sources_unchanged(self):
        k0, v0 = self.src_snapshot
        return (k0 is None or np.array_equal(k0, self.src_keys)) and (v0 is None or np.array_equal(v0, self.src_vals))


def keys_array(ks, kdt):
    return np.array([key_int(k, kdt) for k in ks], dtype=DT2NP[kdt])


def query(ks, t, o):
    vals = [key_int(k, t.kdt) for k in ks]
    how = o.get("query", "list")
    if t.kdt == "u8" and how != "list":
        return np.array(vals, dtype=np.uint64)
    if how == "array":
        info = np.iinfo(DT2NP[t.kdt])
        return np.array(vals, dtype=DT2NP[t.kdt] if all(info.min <= v <= info.max for v in vals) else np.int64)
    if how == "array64":
        return np.array(vals, dtype=np.int64)
    return vals


def shadow(t):
    try:
        c = copy.deepcopy(t.obj)
        if t.kind == "set":
            return ["set", [int(bool(x)) for x in np.asarray(c.contains(keys_array(t.ks, t.kdt))).tolist()]]
        v = c[keys_array(t.ks, t.kdt)]
        return ["vals", [enc_value(x) for x in np.asarray(v).tolist()]]
    except Exception as e:
        return ["raised", type(e).__name__]


def step(objs, st, o):
    k = st[0]
    if k == "new":
        ks, vals, mod, kind = st[1], st[2], st[3], st[4]
        kdt = o.get("kdt", "i8")
        wide = any(isinstance(x, (list, tuple)) for x in ks)
        keys = keys_array(ks, kdt)
        vdt = o.get("vdt", "i8")
        m = None if (mod == 0 or o.get("default_mod")) else int(mod)
        reuse = objs[st[6] - 1] if len(st) > 6 and st[6] and st[6] <= len(objs) else None
        varr = None
        try:
            if reuse is not None and reuse.src_keys is not None:
                keys = reuse.src_keys                                  # a second table built from the SAME caller arrays
            if kind == "set":
                obj = HashSet(keys if o.get("keys_as", "array") == "array" else keys.tolist(), mod=m)
            elif kind == "counter":
                if vals[0] != "scalar":
                    varr = reuse.src_vals if (reuse is not None and reuse.src_vals is not None) else np.array(vals[1], dtype=np.int64)
                v = vals[1] if vals[0] == "scalar" else varr
                obj = Counter(keys, v, mod=m) if not (vals[0] == "scalar" and vals[1] == 0 and o.get("omit_zero")) else Counter(keys, mod=m)
            else:
                if vals[0] == "scalar":
                    obj = HashTable(keys, vals[1], mod=m, value_dtype=DT2NP[vdt])
                else:
                    varr = reuse.src_vals if (reuse is not None and reuse.src_vals is not None) else np.array(vals[1], dtype=DT2NP[vdt])
                    obj = HashTable(keys, varr, mod=m)
            objs.append(T(obj, ks, kdt, wide, kind, keys, varr))
            return ["new", len(objs)]
        except Exception as e:
            return ["obs", ["raised", type(e).__name__]]
    t = objs[st[1] - 1]
    try:
        if k == "get":
            kk = key_int(st[2], t.kdt)
            v = t.obj[kk if not o.get("npkey") else DT2NP[t.kdt](kk)]
            a = np.asarray(v).ravel()
            if a.size != 1:
                return ["obs", ["values", [enc_value(x) for x in a.tolist()]]]
            return ["obs", ["value", enc_value(a[0])]]
        if k == "getvec":
            v = t.obj[query(st[2], t, o)]
            return ["obs", ["values", [enc_value(x) for x in np.asarray(v).tolist()]]]
        if k == "set":
            vals = st[3]
            t.obj[query(st[2], t, o) if len(st[2]) != 1 or o.get("vecset") else key_int(st[2][0], t.kdt)] = \
                vals[1] if vals[0] == "scalar" else np.array(vals[1])
            return ["none"]
        if k == "fill":
            t.obj.fill(st[2])
            return ["none"]
        if k == "contains":
            r = t.obj.contains(query(st[2], t, o))
            return ["obs", ["bools", [int(bool(x)) for x in np.asarray(r).tolist()]]]
        if k == "containsrep":
            v, n, tail, where = key_int(st[2], t.kdt), int(st[3]), [key_int(x, t.kdt) for x in st[4]], st[5]
            qdt = np.uint64 if t.kdt == "u8" else np.int64          # queries may lie outside the key dtype (absent by construction)
            rep = np.full(n, v, dtype=qdt)
            tl = np.array(tail, dtype=qdt)
            r = np.asarray(t.obj.contains(np.concatenate([rep, tl] if where == "head" else [tl, rep])))
            rr, rt = (r[:n], r[n:]) if where == "head" else (r[len(tl):], r[:len(tl)])
            if len(r) != n + len(tl) or (n and not (rr.all() or not rr.any())):
                return ["obs", ["raised", "InconsistentAnswersForEqualQueries"]]
            return ["obs", ["boolsrep", int(bool(rr[0])) if n else 0, n, [int(bool(x)) for x in rt.tolist()]]]
        if k == "containsone":
            r = t.obj.contains(key_int(st[2], t.kdt))
            return ["obs", ["bool", int(bool(r))]]
        if k in ("zeros_like", "ones_like"):
            r = (np.zeros_like if k == "zeros_like" else np.ones_like)(t.obj)
            objs.append(T(r, t.ks, t.kdt, t.wide, t.kind))
            return ["new", len(objs)]
        if k == "add":
            t2 = objs[st[2] - 1]
            r = t.obj + t2.obj
            objs.append(T(r, t.ks, t.kdt, t.wide, "table"))
            return ["new", len(objs)]
        if k == "eq":
            t2 = objs[st[2] - 1]
            return ["obs", ["bool", int(bool(t.obj == t2.obj))]]
        if k in ("items", "to_dict"):
            c = t.obj                                      # on the real object: a stale memo / cache must be seen
            d = dict(c.items()) if k == "items" else c.to_dict()
            d = {int(kk): vv for kk, vv in d.items()}
            order = [key_int(x, t.kdt) for x in t.ks]
            ks = [x for x in order if x in d] + sorted(x for x in d if x not in order)
            return ["obs", ["dict", [enc_key(x, t.wide) for x in ks], [enc_value(d[x]) for x in ks]]]
        if k == "countrep":                              # a large batch in compressed form: n copies of one value and a tail
            v, n, tail, where = key_int(st[2], t.kdt), int(st[3]), [key_int(x, t.kdt) for x in st[4]], st[5]
            rep = np.full(n, v, dtype=DT2NP[t.kdt])
            tl = np.array(tail, dtype=DT2NP[t.kdt])
            t.obj.count(np.concatenate([rep, tl] if where == "head" else [tl, rep]))
            return ["none"]
        if k == "count":
            b = [key_int(x, t.kdt) for x in st[2]]
            how = o.get("batch", "list")
            t.obj.count(np.array(b, dtype=DT2NP[t.kdt]) if (how == "array" or t.wide) else b)
            return ["none"]
    except Exception as e:
        return ["obs", ["raised", type(e).__name__]]
    raise ValueError(st)


def run_program(prog, opts=None, observe="all"):
    o = opts or {}
    objs, out = [], []
    for i, st in enumerate(prog):
        hs = [] if st[0] == "new" else [st[1], st[2]] if st[0] in ("add", "eq") else [st[1]]
        if any(h > len(objs) for h in hs):
            res = ["obs", ["raised", "MissingHandle"]]
        else:
            res = step(objs, st, o)
        ob = [shadow(t) for t in objs] if (observe == "all" or i == len(prog) - 1) else None
        if ob is not None:
            for j, t in enumerate(objs):
                if not t.sources_unchanged():                          # the arrays a table was built from belong to the caller
                    ob[j] = ["raised", "CallerArrayModified"]
        out.append({"res": res, "obs": ob})
    return out
