"""Paths, environment and small utilities shared by the harness."""
import os, sys, json, shutil, tempfile, atexit, time, hashlib

VERIF = os.path.dirname(os.path.dirname(os.path.abspath(__file__)))
SPEC = os.path.join(VERIF, "spec")
REPO = os.environ.get("VERIF_REPO", "/repo")
SEED = int(os.environ.get("VERIF_SEED", "0") or 0)
NONE = 1000000
NCPU = min(16, os.cpu_count() or 1)
PY = "/venv/bin/python"

_scratch = None


def scratch():
    """One scratch directory per process tree, outside /repo and /verif, removed at exit."""
    global _scratch
    if _scratch is None:
        base = os.environ.get("VERIF_SCRATCH_BASE", "/tmp")
        try:                                       # scratch of runs that were killed (no atexit): drop what is older than 12 hours
            import time
            for d in os.listdir(base):
                p = os.path.join(base, d)
                if d.startswith("verif.") and os.path.isdir(p) and time.time() - os.path.getmtime(p) > 12 * 3600:
                    shutil.rmtree(p, ignore_errors=True)
        except OSError:
            pass
        _scratch = tempfile.mkdtemp(prefix="verif.", dir=base)
        atexit.register(lambda: shutil.rmtree(_scratch, ignore_errors=True))
    return _scratch


def use_repo():
    """Make `import npstructures` resolve to the working tree under test (nothing is built or cached)."""
    if REPO not in sys.path:
        sys.path.insert(0, REPO)
    os.environ.setdefault("PYTHONDONTWRITEBYTECODE", "1")
    sys.dont_write_bytecode = True


def short_hash(obj):
    return hashlib.sha1(json.dumps(obj, sort_keys=True, default=str).encode()).hexdigest()[:12]


class Timer:
    def __init__(self):
        self.t0 = time.time()

    def s(self):
        return round(time.time() - self.t0, 2)
