"""numpy <-> abstract (TLA+/JSON) value encodings.  See DESIGN.md appendix A.1.

  dtype          "b1" "i1" "i2" "i4" "i8" "u1" "u2" "u4" "u8" "f2" "f4" "f8"
  bool / int     integer (bool 0/1); in "wide" mode 4 limbs of 16 bits of the two's-complement pattern
  float          reduced rational [num, den]; [0,0] NaN; [1,0] +inf; [-1,0] -inf; [0,-1] negative zero
"""
from fractions import Fraction
import math
import numpy as np

DT2NP = {"b1": np.bool_, "i1": np.int8, "i2": np.int16, "i4": np.int32, "i8": np.int64,
         "u1": np.uint8, "u2": np.uint16, "u4": np.uint32, "u8": np.uint64,
         "f2": np.float16, "f4": np.float32, "f8": np.float64}
NP2DT = {np.dtype(v).str.lstrip("<|=>"): k for k, v in DT2NP.items()}
MAXDEN = 4096


def dt_of(npdtype):
    """abstract dtype name of a numpy dtype; other dtypes (object, str, ...) are reported verbatim"""
    s = np.dtype(npdtype).str.lstrip("<|=>")
    return NP2DT.get(s, "other:" + str(np.dtype(npdtype)))


def kind(dt):
    return "b" if dt == "b1" else dt[0] if dt[0] in "iuf" else "o"


def bits(dt):
    return 8 if dt == "b1" else int(dt[1:]) * 8


def enc_float(x):
    x = float(x)
    if math.isnan(x):
        return [0, 0]
    if math.isinf(x):
        return [1 if x > 0 else -1, 0]
    if x == 0.0:
        return [0, -1] if math.copysign(1.0, x) < 0 else [0, 1]      # the sign of zero is observable (copying must keep it)
    f = Fraction(x)
    if f.denominator > MAXDEN:
        f = f.limit_denominator(MAXDEN)
    n, d = f.numerator, f.denominator
    if abs(n) >= 2 ** 31:                       # outside TLC's integers: saturate (never equal to a modelled value)
        return [2 ** 31 - 1 if n > 0 else -(2 ** 31 - 1), 1]
    return [n, d]


def limbs(v, b=64):
    p = int(v) & ((1 << 64) - 1)
    return [(p >> 48) & 0xFFFF, (p >> 32) & 0xFFFF, (p >> 16) & 0xFFFF, p & 0xFFFF]


def unlimbs(q, dt):
    p = (q[0] << 48) | (q[1] << 32) | (q[2] << 16) | q[3]
    if kind(dt) == "i" and p >= 1 << 63:
        p -= 1 << 64
    if kind(dt) == "i":
        b = bits(dt)
        p = ((p + (1 << (b - 1))) % (1 << b)) - (1 << (b - 1)) if b < 64 else p
    elif kind(dt) == "u":
        p %= 1 << bits(dt)
    return p


def enc_val(x, dt, wide=False):
    k = kind(dt)
    if k == "f":
        return enc_float(x)
    if k == "o":
        return str(x)
    v = int(x)
    if wide:
        return limbs(v)
    if abs(v) >= 2 ** 31:
        return 2 ** 31 - 1 if v > 0 else -(2 ** 31 - 1)      # saturate; narrow regime never produces these
    return v


def enc_seq(a, wide=False, dt=None):
    a = np.asarray(a)
    dt = dt or dt_of(a.dtype)
    return [enc_val(x, dt, wide) for x in a.ravel().tolist()] if kind(dt) != "f" else [enc_float(x) for x in a.ravel().astype(np.float64).tolist()]


def dec_val(v, dt):
    k = kind(dt)
    if k == "f":
        if not isinstance(v, (list, tuple)):
            return float(v)
        n, d = v
        if d == 0:
            return float("nan") if n == 0 else math.copysign(float("inf"), n)
        if n == 0:
            return -0.0 if d < 0 else 0.0
        return n / d
    if isinstance(v, (list, tuple)):
        return unlimbs(v, dt)
    return bool(v) if k == "b" else int(v)


def dec_seq(q, dt):
    return np.array([dec_val(v, dt) for v in q], dtype=DT2NP[dt])


def is_wide_val(v, dt):
    return kind(dt) != "f" and isinstance(v, (list, tuple))


def rows_wide(rows, dt):
    return any(is_wide_val(v, dt) for r in rows for v in r)
