"""./check selftest : checking the checkers.

1. Oracle calibration: PySeq / NpVal operators against CPython / numpy over their bounded domain (spec/trace/Calib.tla).
2. Binding demonstration: a recorded trace is accepted; with ONE logged field corrupted the validator names the event and the
   clause; with the expected value of one dump state flipped the replayer flags it; a program with a dropped step diverges.
3. Judge parity: harness/judge.py and spec/abs/Judge.tla give the same verdicts on recorded events.
Exit 0 = all as expected, 2 otherwise (never 1: the self-test is not a property check)."""
import os, json, itertools, warnings, copy
from fractions import Fraction
import numpy as np
from .common import SPEC, scratch, NONE
from . import tlc, tlaparse, trace, runner, replay
from .enc import DT2NP, dt_of, enc_val, enc_float

warnings.simplefilter("ignore")


def enc(v):
    v = np.asarray(v)[()]
    if isinstance(v, (np.floating, float)):
        q = enc_float(v)
        return [0, 1] if q == [0, -1] else q          # the specification's arithmetic has one zero (see Judge!NumEq)
    return int(v)


def gen_calib():
    NP = DT2NP
    out = {k: [] for k in ("slice", "norm", "rt", "rtw", "f2", "f1", "cast", "red", "ss")}
    bnds = [None] + list(range(-8, 9))
    for n in range(0, 7):
        for a, b, s in itertools.product(bnds, bnds, [None, -3, -2, -1, 1, 2, 3]):
            out["slice"].append([n, NONE if a is None else a, NONE if b is None else b, NONE if s is None else s, list(range(n))[slice(a, b, s)]])
        for i in range(-9, 9):
            out["norm"].append([n, i, (i % n if -n <= i < n else -1) if n else -1])
    for a, b in itertools.product(NP, NP):
        out["rt"].append([a, b, dt_of(np.result_type(NP[a], NP[b]))])
    for a in NP:
        for pk, pv in (("pybool", True), ("pyint", 2), ("pyfloat", 2.5)):
            out["rtw"].append([a, pk, dt_of(np.result_type(NP[a], pv))])
    pal = {"b": [0, 1], "i": [-128, -3, -1, 0, 1, 2, 100, 127], "u": [0, 1, 2, 3, 100, 200, 255],
           "f": [-2.5, -0.5, 0.0, 0.25, 1.0, 3.0, float("nan"), float("inf"), float("-inf")]}
    ufs = ["add", "subtract", "multiply", "maximum", "minimum", "less", "less_equal", "greater", "greater_equal", "equal", "not_equal",
           "logical_and", "logical_or", "logical_xor", "bitwise_and", "bitwise_or", "bitwise_xor"]
    kind = lambda d: "b" if d == "b1" else d[0]
    for dt in ["b1", "i1", "u1", "i2", "i8", "u2", "f2", "f4", "f8"]:
        k = kind(dt)
        for f in ufs:
            if (k == "f" and f.startswith("bitwise")) or (k == "b" and f == "subtract"):
                continue
            for x, y in itertools.product(pal[k], pal[k]):
                X, Y = NP[dt](x), NP[dt](y)
                r = getattr(np, f)(X, Y)
                if np.dtype(r.dtype) != np.dtype(NP[dt]) and r.dtype != np.bool_:
                    continue
                if k == "f" and np.isfinite(np.float64(r)) and Fraction(float(r)).denominator > 64:
                    continue
                out["f2"].append([f, dt, enc(X), enc(Y), dt_of(r.dtype), enc(r)])
        for f in ["negative", "absolute", "invert", "logical_not"]:
            if (f == "invert" and k == "f") or (f == "negative" and k == "b"):
                continue
            for x in pal[k]:
                X = NP[dt](x)
                r = getattr(np, f)(X)
                out["f1"].append([f, dt, enc(X), dt_of(r.dtype), enc(r)])
    for a, b in itertools.product(["b1", "i1", "u1", "i8", "f8"], ["b1", "i1", "u1", "i2", "i8", "f4", "f8"]):
        for x in pal[kind(a)]:
            X = NP[a](x)
            if kind(a) == "f" and kind(b) in "iu" and (not np.isfinite(X) or (kind(b) == "u" and X < 0)):
                continue
            out["cast"].append([a, b, enc(X), enc(np.asarray(X).astype(NP[b])[()])])
    seqs = {"b": [[], [1], [0, 1, 1], [0, 0]], "i": [[], [5], [100, 100, -3], [-128, -1], [3, 1, 2, 7]], "u": [[], [200, 100], [255, 255, 3], [1, 2, 3]],
            "f": [[], [0.5, 0.25], [1.0, float("inf")], [-2.5, 3.0, 0.5]]}
    for dt in ["b1", "i1", "u1", "i2", "i8", "f4", "f8"]:
        k = kind(dt)
        for f in ["add", "multiply", "bitwise_and", "bitwise_or", "bitwise_xor", "logical_and", "logical_or", "logical_xor", "maximum", "minimum"]:
            if k == "f" and f.startswith("bitwise"):
                continue
            for q in seqs[k]:
                if not q and f in ("maximum", "minimum"):
                    continue
                if f == "multiply" and k != "f" and q and abs(int(np.prod(np.array(q, dtype=object)))) > 2 ** 30:
                    continue
                a = np.array(q, dtype=NP[dt])
                r = getattr(np, f).reduce(a)
                out["red"].append([f, dt, [enc(v) for v in a], dt_of(np.asarray(r).dtype), enc(r)])
    for a in [[], [0], [0, 0, 3], [0, 2, 2, 5, 9], [1, 1, 1]]:
        for v in range(-1, 11):
            out["ss"].append([a, v, int(np.searchsorted(a, v, "left")), int(np.searchsorted(a, v, "right"))])
    return out


def calibrate(corrupt=False):
    data = gen_calib()
    if corrupt:                                   # the calibration itself must be able to fail
        data["rt"][17][2] = "f2" if data["rt"][17][2] != "f2" else "f4"
        data["slice"][1234][4] = data["slice"][1234][4] + [99]
    p = os.path.join(scratch(), "calib.json")
    json.dump(data, open(p, "w"))
    r = tlc.run_tlc(os.path.join(SPEC, "trace", "Calib.tla"), os.path.join(SPEC, "trace", "Calib.cfg"), workers=1, env={"CALIB_FILE": p}, timeout=600)
    bad = {}
    for raw in tlc.printed_tuples(r["stdout"]):
        v = tlaparse.parse_value(raw)
        if v and v[0] == "CALIB":
            bad[v[1]] = v[2]
    sizes = {k: len(v) for k, v in data.items()}
    return bad, sizes, r


def binding_demo():
    """corrupt one recorded field / flip one expected value / drop one step: each must be noticed"""
    from . import drivers_ragged, exec_ragged
    msgs = []
    ok = True
    events = drivers_ragged.generate("C02", 12345, 300)
    runner.exec_events("ragged", events)
    payload = [{"id": e["id"], "case": e["case"], "out": e["out"], "strict": False} for e in events]
    v, _ = trace.validate(payload, "Trace_Ragged")
    nbad = sum(1 for x in v.values() if x[0] not in ("ok", "unspec"))
    msgs.append(f"recorded trace of 300 getitem events: {nbad} rejected (expected 0)")
    ok &= nbad == 0
    # corrupt one logged result
    victim = next(e for e in payload if e["out"][0] == "ragged" and any(len(r) for r in e["out"][2]))
    c = copy.deepcopy(payload)
    cv = next(e for e in c if e["id"] == victim["id"])
    row = next(r for r in cv["out"][2] if r)
    row[0] = row[0] + 1 if not isinstance(row[0], list) else [row[0][0] + 1, row[0][1]]
    v2, _ = trace.validate(c, "Trace_Ragged")
    flagged = [k for k, x in v2.items() if x[0] not in ("ok", "unspec")]
    msgs.append(f"one logged cell corrupted in event {victim['id']}: validator rejected events {flagged} with clause {v2[victim['id']][0]!r}")
    ok &= flagged == [victim["id"]] and v2[victim["id"]][0] == "value"
    # flip the expectation of one dump state: the replayer must flag exactly that state
    from .judge import judge
    e0 = victim
    exp = copy.deepcopy(e0["out"])
    out = exec_ragged.execute(e0["case"], {})
    first = judge(exp, out)
    next(r for r in exp[2] if r)[0] = 424242
    second = judge(exp, out)
    msgs.append(f"expected value flipped in one replayed state: verdict {first!r} -> {second!r}")
    ok &= first == "ok" and second == "value"
    # drop one step of a recorded heap program: the trace validator must notice (handle counts / contents diverge)
    from . import drivers_heap
    progs = drivers_heap.generate_and_run(7, 40, "C06")
    def effective(p):
        for i, st in enumerate(p["steps"]):
            if st[0] == "assign" and i < len(p["steps"]) - 1 and p["rec"][i]["res"] == ["none"] and json.dumps(p["rec"][i]["obs"][:len(p["rec"][i - 1]["obs"])]) != json.dumps(p["rec"][i - 1]["obs"]):
                return i
        return None
    victim = next(p for p in progs if effective(p) is not None)
    k = effective(victim)
    broken = {"id": 0, "steps": victim["steps"][:k] + victim["steps"][k + 1:], "rec": victim["rec"][:k] + victim["rec"][k + 1:]}
    path = os.path.join(scratch(), "demo.heap.json")
    json.dump([broken], open(path, "w"))
    r = tlc.run_tlc(os.path.join(SPEC, "trace", "Trace_Heap.tla"), os.path.join(SPEC, "trace", "Trace_Heap.cfg"), workers=1, env={"TRACE_FILE": path})
    lines = [tlaparse.parse_value(x) for x in tlc.printed_tuples(r["stdout"])]
    vs = [x for x in lines if x[0] == "V" and x[4] != "known"]
    msgs.append(f"assignment step {k + 1} removed from a recorded program (its later observations kept): validator reported {len(vs)} mismatching observation(s)")
    ok &= len(vs) >= 1
    return ok, msgs


def judge_parity():
    from . import drivers_ragged
    from .judge import judge
    events = drivers_ragged.generate("C05", 777, 250) + drivers_ragged.generate("C04", 777, 250)
    for i, e in enumerate(events):
        e["id"] = i
    runner.exec_events("ragged", events)
    # perturb half of the outcomes so that non-ok verdicts occur
    for e in events[::2]:
        o = e["out"]
        if o[0] in ("flat", "ragged") and len(o) > 2 and o[2]:
            tgt = o[2] if o[0] == "flat" else next((r for r in o[2] if r), None)
            if tgt:
                tgt[0] = [7, 3] if isinstance(tgt[0], list) else 12345
    payload = [{"id": e["id"], "case": e["case"], "out": e["out"], "strict": bool(e["strict"])} for e in events]
    v, _ = trace.validate(payload, "Trace_Ragged")
    # python side needs the expectation: recover it from TLC's verdict lines where printed; where TLC said ok, python must say ok for exp == out
    diff = 0
    for e in events:
        tv, exp = v[e["id"]]
        if exp is not None:
            pv = judge(exp, e["out"], bool(e["strict"]))
            diff += pv != tv
    return diff, sum(1 for x in v.values() if x[0] not in ("ok", "unspec"))


def run(args):
    ok = True
    bad, sizes, r = calibrate()
    print("calibration table sizes:", sizes)
    print("rows where the specification disagrees with CPython/numpy:", bad)
    ok &= bool(bad) and all(v == 0 for v in bad.values()) and len(bad) == 9
    bad2, _, _ = calibrate(corrupt=True)
    print("with two rows of the table corrupted on purpose:", {k: v for k, v in bad2.items() if v})
    ok &= bad2.get("rt") == 1 and bad2.get("slice") == 1
    b_ok, msgs = binding_demo()
    for m in msgs:
        print("binding:", m)
    ok &= b_ok
    diff, n = judge_parity()
    print(f"judge parity: {n} non-ok verdicts by Judge.tla, {diff} disagreements with harness/judge.py")
    ok &= diff == 0 and n > 0
    print("SELFTEST", "PASSED" if ok else "FAILED")
    return 0 if ok else 2
