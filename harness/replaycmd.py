"""./check replay <file> : re-execute one replay file against the current working tree and re-judge it."""
import json, importlib
from .judge import judge


def run(path):
    r = json.load(open(path))
    fam = r.get("family") or "ragged"
    print("property", r.get("property"), "| family", fam, "| binding", r.get("binding"), "| recorded verdict", r.get("verdict"))
    if fam in ("heap", "hash"):
        mod = importlib.import_module("harness.exec_" + fam)
        run_ = mod.run_program(r["steps"], r.get("opts") or {}, observe="all")
        last = run_[-1]
        h = r.get("handle") or 0
        obs = last["res"] if h == 0 else (last["obs"][h - 1] if h <= len(last["obs"]) else None)
        print("steps:", json.dumps(r["steps"]))
        print("expected:", json.dumps(r.get("expected")))
        print("observed now:", json.dumps(obs))
        same = json.dumps(obs) == json.dumps(r.get("observed"))
        print("same as recorded observation:", same)
        return 1 if same else 0
    mod = importlib.import_module("harness.exec_" + fam)
    out = mod.execute(r["case"], r.get("opts") or {})
    print("case:", json.dumps(r["case"]))
    print("expected:", json.dumps(r.get("expected")))
    print("observed now:", json.dumps(out))
    exp = r.get("expected")
    if r.get("verdict") == "width":
        same = json.dumps(out) != json.dumps(mod.execute(r["case"], dict(r.get("opts") or {}, width=64)))
        print("still differs between widths:", same)
        return 1 if same else 0
    v = judge(exp, out, False) if exp else "unknown"
    print("verdict now:", v)
    return 0 if v in ("ok", "unspec") else 1
