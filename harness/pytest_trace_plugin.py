"""pytest plugin: while the repository's own pinned suite runs, record every OUTERMOST public call of
RaggedArray.__getitem__ / __setitem__ / element-wise ufuncs as trace events in the format of spec/abs/Ragged.tla
(`Expect`), with the pre-state taken by shadow copy (deep copy, so the observation does not materialise anything).
Installed only when NPSTRUCTURES_VERIF=1; the suite's outcome is unchanged (the wrappers re-raise and return the
original results).  Events go to $VERIF_TRACE_OUT and are validated by TLC (Trace_Ragged)."""
import os, json, copy, threading
import numpy as np

NONE = 1000000
_depth = threading.local()
EVENTS = []
MAXCELLS = 300


def _enc_b(v):
    return NONE if v is None else int(v)


def enc_sel(x, col=False):
    from npstructures import RaggedArray
    if x is Ellipsis:
        return ["all"]
    if isinstance(x, (bool, np.bool_)):
        return None
    if isinstance(x, (int, np.integer)):
        return ["int", int(x)]
    if isinstance(x, slice):
        if any(v is not None and not isinstance(v, (int, np.integer)) for v in (x.start, x.stop, x.step)):
            return None
        return ["slice", _enc_b(x.start), _enc_b(x.stop), _enc_b(x.step)]
    if col:
        return None
    if isinstance(x, list) and all(isinstance(v, (int, np.integer)) and not isinstance(v, bool) for v in x):
        return ["list", [int(v) for v in x]]
    if isinstance(x, np.ndarray) and x.ndim == 1 and x.dtype == bool:
        return ["mask", [int(v) for v in x]]
    if isinstance(x, np.ndarray) and x.ndim == 1 and np.issubdtype(x.dtype, np.integer):
        return ["list", [int(v) for v in x]]
    if isinstance(x, np.ndarray) and x.ndim == 0 and np.issubdtype(x.dtype, np.integer):
        return ["int", int(x)]
    if isinstance(x, RaggedArray) and x.dtype == bool:
        return ["rmask", [[int(v) for v in r] for r in copy.deepcopy(x).tolist()]]
    return None


def enc_index(idx):
    if isinstance(idx, tuple):
        if len(idx) == 0:
            return ["all"], ["none"]
        if len(idx) == 1:
            r = enc_sel(idx[0])
            return (r, ["none"]) if r else None
        if len(idx) == 2:
            r, c = enc_sel(idx[0]), enc_sel(idx[1], col=True)
            return (r, c) if r and c else None
        return None
    r = enc_sel(idx)
    return (r, ["none"]) if r else None


def shadow_arr(a):
    from harness.enc import dt_of, enc_seq
    s = copy.deepcopy(a)
    dt = dt_of(s.dtype)
    if dt.startswith("other") or s.size > MAXCELLS:
        return None
    rows = [enc_seq(r, False, dt) for r in s]
    flat = [v for r in rows for v in r]
    if any((isinstance(v, int) and abs(v) >= 2 ** 30) or (isinstance(v, list) and (abs(v[0]) >= 2 ** 30 or v[1] > 4096)) for v in flat):
        return None                       # outside the modelled value regime
    return [dt, rows]


def install():
    from npstructures import RaggedArray
    from harness import exec_ragged as ER
    og, os_, ou = RaggedArray.__getitem__, RaggedArray.__setitem__, RaggedArray.__array_ufunc__

    def outer():
        d = getattr(_depth, "d", 0)
        _depth.d = d + 1
        return d

    def getitem(self, idx):
        d = outer()
        try:
            if d > 0:
                return og(self, idx)
            pre = e = None
            try:
                e = enc_index(idx)
                pre = shadow_arr(self) if e else None
            except Exception:
                pre = None
            try:
                r = og(self, idx)
            except Exception as ex:
                if pre is not None:
                    EVENTS.append({"case": ["getitem", pre, e[0], e[1]], "out": ["raised", type(ex).__name__], "strict": False, "test": os.environ.get("PYTEST_CURRENT_TEST", "")})
                raise
            if pre is not None:
                try:
                    out = ER.proj_any(copy.deepcopy(r))
                    if out[0] == "flat" and e[0][0] == "int" and e[1][0] != "int":
                        out[0] = "row"
                except Exception as ex:
                    out = ["raised", type(ex).__name__]
                EVENTS.append({"case": ["getitem", pre, e[0], e[1]], "out": out, "strict": False, "test": os.environ.get("PYTEST_CURRENT_TEST", "")})
            return r
        finally:
            _depth.d = d

    def setitem(self, idx, value):
        d = outer()
        try:
            if d > 0:
                return os_(self, idx, value)
            pre = e = val = None
            try:
                e = enc_index(idx)
                pre = shadow_arr(self) if e else None
                if pre is not None:
                    from harness.enc import enc_val, enc_seq
                    dt = pre[0]
                    if isinstance(value, (int, float, bool, np.generic)):
                        val = ["scalar", enc_val(np.asarray(value).astype(self.dtype)[()], dt)]
                    elif isinstance(value, RaggedArray):
                        v = copy.deepcopy(value)
                        val = ["ragged", [enc_seq(np.asarray(r).astype(self.dtype), False, dt) for r in v]]
                    elif isinstance(value, (np.ndarray, list)):
                        a = np.asarray(value)
                        if a.ndim == 2 and a.shape[1] == 1:
                            val = ["col", enc_seq(a[:, 0].astype(self.dtype), False, dt)]
                        elif a.ndim == 1:
                            val = ["flat", enc_seq(a.astype(self.dtype), False, dt)]
            except Exception:
                pre = None
            try:
                r = os_(self, idx, value)
            except Exception as ex:
                if pre is not None and val is not None:
                    EVENTS.append({"case": ["setitem", pre, e[0], e[1], val], "out": ["raised", type(ex).__name__], "strict": False, "test": os.environ.get("PYTEST_CURRENT_TEST", "")})
                raise
            if pre is not None and val is not None:
                post = shadow_arr(self)
                if post is not None:
                    EVENTS.append({"case": ["setitem", pre, e[0], e[1], val], "out": ["array", post[0], post[1]], "strict": False, "test": os.environ.get("PYTEST_CURRENT_TEST", "")})
            return r
        finally:
            _depth.d = d

    def array_ufunc(self, ufunc, method, *inputs, **kwargs):
        d = outer()
        try:
            if d > 0 or method != "__call__" or kwargs or len(inputs) not in (1, 2) or ufunc.__name__ not in ER.UFUNCS:
                return ou(self, ufunc, method, *inputs, **kwargs)
            ops = None
            try:
                from harness.enc import dt_of, enc_val, enc_seq
                ops = []
                for x in inputs:
                    if isinstance(x, RaggedArray):
                        a = shadow_arr(x)
                        ops.append(["ra", a] if a else None)
                    elif isinstance(x, bool):
                        ops.append(["py", "pybool", int(x)])
                    elif isinstance(x, int) and abs(x) < 2 ** 30:
                        ops.append(["py", "pyint", x])
                    elif isinstance(x, float):
                        ops.append(["py", "pyfloat", enc_val(x, "f8")])
                    elif isinstance(x, np.generic):
                        ops.append(["np", dt_of(x.dtype), enc_val(x, dt_of(x.dtype))])
                    elif isinstance(x, np.ndarray) and x.ndim == 2 and x.shape[1] == 1:
                        ops.append(["col", dt_of(x.dtype), enc_seq(x[:, 0], False, dt_of(x.dtype))])
                    else:
                        ops.append(None)
                if any(o is None for o in ops) or any(str(o).find("other:") >= 0 for o in ops):
                    ops = None
                elif len(ops) == 1:
                    ops.append(["none"])
            except Exception:
                ops = None
            try:
                r = ou(self, ufunc, method, *inputs, **kwargs)
            except Exception as ex:
                if ops:
                    EVENTS.append({"case": ["ufunc", ufunc.__name__, ops[0], ops[1]], "out": ["raised", type(ex).__name__], "strict": True, "test": os.environ.get("PYTEST_CURRENT_TEST", "")})
                raise
            if ops and r is not NotImplemented:
                try:
                    out = ER.proj_any(copy.deepcopy(r))
                except Exception as ex:
                    out = ["raised", type(ex).__name__]
                if not (out[0] == "ragged" and any(isinstance(v, int) and abs(v) >= 2 ** 31 - 1 for row in out[2] for v in row)):
                    EVENTS.append({"case": ["ufunc", ufunc.__name__, ops[0], ops[1]], "out": out, "strict": True, "test": os.environ.get("PYTEST_CURRENT_TEST", "")})
            return r
        finally:
            _depth.d = d

    RaggedArray.__getitem__ = getitem
    RaggedArray.__setitem__ = setitem
    RaggedArray.__array_ufunc__ = array_ufunc


def pytest_configure(config):
    if os.environ.get("NPSTRUCTURES_VERIF") == "1":
        install()


def pytest_sessionfinish(session, exitstatus):
    if os.environ.get("NPSTRUCTURES_VERIF") == "1" and os.environ.get("VERIF_TRACE_OUT"):
        json.dump(EVENTS, open(os.environ["VERIF_TRACE_OUT"], "w"))
