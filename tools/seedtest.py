#!/venv/bin/python
"""Confirm a seeded change and run the registered check against it.

  tools/seedtest.py <seed-id> <property> <patch.diff> <demo.py> [--check-props C02,C06]

1. scratch worktree of /repo HEAD under /tmp/mut/<seed-id>; `git apply` the patch;
2. the pinned suite must still pass there (141 passed); the demo must fail there and pass on /repo;
3. `VERIF_REPO=<worktree> ./check <prop>` must exit 1 (detected) - reported, never assumed;
4. the worktree is removed.  Prints one JSON line."""
import os, sys, subprocess, json, shutil, time

PY = "/venv/bin/python"


def sh(cmd, **kw):
    p = subprocess.run(cmd, shell=isinstance(cmd, str), capture_output=True, text=True, **kw)
    return p.returncode, (p.stdout + p.stderr)


def main():
    sid, prop, patch, demo = sys.argv[1:5]
    props = [prop]
    if "--check-props" in sys.argv:
        props = sys.argv[sys.argv.index("--check-props") + 1].split(",")
    tier = os.environ.get("SEED_TIER", "quick")
    wt = f"/tmp/mut/{sid}"
    os.makedirs("/tmp/mut", exist_ok=True)
    sh(f"git -C /repo worktree remove --force {wt}")
    shutil.rmtree(wt, ignore_errors=True)
    rc, out = sh(f"git -C /repo worktree add -q --detach {wt} HEAD")
    res = {"id": sid, "property": prop, "applies": False}
    try:
        rc, out = sh(f"git -C {wt} apply {patch}")
        if rc != 0:
            rc, out = sh(f"git -C {wt} apply --3way {patch}")
        if rc != 0:
            res["apply_error"] = out[-400:]
            return res
        res["applies"] = True
        env = dict(os.environ, PYTHONPATH=wt, PYTHONDONTWRITEBYTECODE="1")
        rc, out = sh(f"cd {wt} && {PY} -m pytest -q -p no:cacheprovider 2>&1 | tail -1", env=env)
        res["suite"] = out.strip()[-80:]
        res["suite_ok"] = "141 passed" in out and "failed" not in out
        rc1, out1 = sh([PY, demo], env=env, cwd="/tmp")
        rc0, out0 = sh([PY, demo], env=dict(os.environ, PYTHONPATH="/repo", PYTHONDONTWRITEBYTECODE="1"), cwd="/tmp")
        res["demo_fails_with_change"] = rc1 != 0
        res["demo_passes_without"] = rc0 == 0
        res["checks"] = {}
        for p in props:
            t = time.time()
            rc, out = sh(["./check", p, "--tier", tier], env=dict(os.environ, VERIF_REPO=wt, VERIF_SCRATCH_BASE="/tmp"), cwd=os.path.dirname(os.path.dirname(os.path.abspath(__file__))))
            viol = [l for l in out.splitlines() if l.startswith("VIOLATION")]
            first = next((l for l in out.splitlines() if l.startswith("  verdict=")), "")
            res["checks"][p] = {"exit": rc, "violations": len(viol), "first": first[:300], "wall_s": round(time.time() - t, 1),
                                "summary": next((l for l in out.splitlines()[::-1] if l.startswith(p + " [")), out[-300:])}
        res["detected"] = any(c["exit"] == 1 for c in res["checks"].values())
        return res
    finally:
        sh(f"git -C /repo worktree remove --force {wt}")
        shutil.rmtree(wt, ignore_errors=True)
        sh("git -C /repo worktree prune")


if __name__ == "__main__":
    print(json.dumps(main()))
