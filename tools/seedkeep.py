#!/venv/bin/python
"""Keep a confirmed seeded change under /verif/seeded/<id>/ (patch.diff, demo.py, notes.md, meta.json)."""
import sys, json, os, shutil, re
res = json.load(open(sys.argv[1]))
src = sys.argv[2]            # /tmp/seedout/Cxx
k = sys.argv[3]              # 1 | 2
sid = res["id"]
d = f"/verif/seeded/{sid}"
os.makedirs(d, exist_ok=True)
shutil.copy(f"{src}/patch{k}.diff", f"{d}/patch.diff")
shutil.copy(f"{src}/demo{k}.py", f"{d}/demo.py")
notes = open(f"{src}/notes.md").read() if os.path.exists(f"{src}/notes.md") else ""
open(f"{d}/notes.md", "w").write(notes)
files = sorted(set(re.findall(r"^\+\+\+ b/(\S+)", open(f"{d}/patch.diff").read(), re.M)))
meta = {
    "id": sid, "breaks_property": res["property"], "files_changed": files,
    "needs_to_manifest": "see notes.md (written by the independent sub-agent that produced the change; change " + k + ")",
    "confirmed": {"applies_to_repo_HEAD": res["applies"], "pinned_suite_still_passes": res.get("suite_ok"),
                  "demo_fails_with_change": res.get("demo_fails_with_change"), "demo_passes_without_change": res.get("demo_passes_without")},
    "ran": "tools/seedtest.py: scratch worktree of /repo HEAD under /tmp/mut, git apply, pytest (141 passed), demo with/without, VERIF_REPO=<worktree> ./check <prop> --tier quick; worktree removed",
    "checks": res.get("checks"), "detected": res.get("detected"),
}
json.dump(meta, open(f"{d}/meta.json", "w"), indent=1)
print(sid, "kept; detected =", res.get("detected"))
