#!/venv/bin/python
"""For every fix: commit, check that the registered check of its property reports the defect again when the fix is reverted.

  tools/fixtest.py [out.json]     scratch worktree of /repo HEAD, `git revert -n <commit>`, VERIF_REPO=<worktree> ./check <prop>; expects exit 1."""
import os, sys, subprocess, json, shutil, time

FIXES = [("24fbb47", ["C02"]), ("70eae11", ["C02"]), ("bd0d83b", ["C02"]), ("436e8bc", ["C06"]), ("ce70aee", ["C05"]), ("007f82d", ["C07"]),
         ("9d4e87e", ["C04"]), ("37407ce", ["C04"]), ("31bac59", ["C15"]), ("beec7e9", ["C17"]), ("0ef61ee", ["C19"]), ("c35be22", ["C11"]),
         ("830172c", ["C11"]), ("93dbb52", ["C05"]), ("bdb9833", ["C08"]), ("fa67f1e", ["C06"]), ("839be6a", ["C06"]), ("a29fead", ["C06"]),
         ("cff32f3", ["C02"]), ("efa07ab", ["C09"]), ("47ae72d", ["C08"]), ("4bff492", ["C11"]), ("31e1d65", ["C16"]), ("e36eb6d", ["C17"]),
         ("7478f56", ["C15"]), ("0ef3b03", ["C07"]), ("01234af", ["C16"]), ("a9233ea", ["C09"]), ("7a2fc29", ["C17"]), ("4865a1a", ["C15"]), ("5eb3297", ["C05"]), ("211d904", ["C02"])]


def sh(cmd, **kw):
    p = subprocess.run(cmd, shell=isinstance(cmd, str), capture_output=True, text=True, **kw)
    return p.returncode, p.stdout + p.stderr


def main():
    out = {}
    only = sys.argv[2].split(",") if len(sys.argv) > 2 else None
    for commit, props in FIXES:
        if only and commit not in only:
            continue
        wt = f"/tmp/fixt/{commit}"
        os.makedirs("/tmp/fixt", exist_ok=True)
        sh(f"git -C /repo worktree remove --force {wt}")
        sh(f"git -C /repo worktree add -q --detach {wt} HEAD")
        rc, o = sh(f"git -C {wt} revert -n {commit}")
        subj = sh(f"git -C /repo log -1 --format=%s {commit}")[1].strip()
        rec = {"subject": subj, "reverts_cleanly": rc == 0, "checks": {}}
        if rc == 0:
            for p in props:
                t = time.time()
                rc2, o2 = sh(["./check", p], env=dict(os.environ, VERIF_REPO=wt, VERIF_SCRATCH_BASE="/tmp"), cwd="/verif")
                first = next((l for l in o2.splitlines() if l.startswith("  verdict=")), "")
                rec["checks"][p] = {"exit": rc2, "first": first[:260], "wall_s": round(time.time() - t, 1)}
        else:
            rec["error"] = o[-300:]
        rec["detected"] = any(c["exit"] == 1 for c in rec["checks"].values())
        out[commit] = rec
        print(commit, rec["detected"], subj[:70], flush=True)
        sh(f"git -C /repo worktree remove --force {wt}")
        shutil.rmtree(wt, ignore_errors=True)
        sh("git -C /repo worktree prune")
        json.dump(out, open(sys.argv[1] if len(sys.argv) > 1 else "/tmp/fixtest.json", "w"), indent=1)


def merge(result_path="/tmp/fixtest.json"):
    """write / refresh the `fixed:` entries of known_findings.json from a result file of this tool"""
    kf_path = os.path.join(os.path.dirname(os.path.dirname(os.path.abspath(__file__))), "known_findings.json")
    kf = json.load(open(kf_path))
    res = json.load(open(result_path))
    byid = {e["id"]: e for e in kf}
    for commit, props in FIXES:
        if commit not in res:
            continue
        r = res[commit]
        subj = r["subject"][len("fix:"):].strip() if r["subject"].startswith("fix:") else r["subject"]
        det = [p for p, c in r["checks"].items() if c["exit"] == 1]
        e = byid.get("FX-" + commit) or {"id": "FX-" + commit}
        e.update({"properties": props, "status": "fixed", "commit": commit, "class": None, "params": {},
                  "what": f"fixed: property={props[0]} {commit} {subj}", "reverted_detected": bool(det),
                  "reverted_detected_by": det[0] if det else None,
                  "first_violation_when_reverted": (r["checks"][det[0]]["first"].strip() if det else None)})
        if e["id"] not in byid:
            kf.append(e)
            byid[e["id"]] = e
    json.dump(kf, open(kf_path, "w"), indent=1)
    print("merged", len([e for e in kf if e.get("status") == "fixed"]), "fixed entries")


if __name__ == "__main__":
    if len(sys.argv) > 1 and sys.argv[1] == "--merge":
        merge(*sys.argv[2:3])
    else:
        main()
