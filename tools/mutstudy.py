#!/venv/bin/python
"""Syntactic mutation study (objective counterpart of the seeded changes written by sub-agents).

  tools/mutstudy.py <out.json> [per_file] [seed] [executed.json] [max_checks_per_mutant]

1. every function of every library module is mutated one site at a time (comparison boundaries, +/-, *//, small constants,
   min/max, unary minus, and/or, negated conditions);
2. mutants are applied in scratch copies of /repo's working tree under /tmp/mutstudy (16 in parallel) and the pinned suite is run:
   only mutants that PASS the suite are interesting;
3. up to `per_file` surviving mutants per module (seeded sample) are then run through the quick checks of the properties anchored in
   that module, in the order given below, stopping at the first check that exits 1.
Nothing is written to /repo; the scratch copies are removed.  The result lists, per mutant, the suite outcome and which check
(if any) reported a violation."""
import ast, sys, os, json, random, shutil, subprocess, time
import multiprocessing as mp

REPO = "/repo"
PY = "/venv/bin/python"
FILES = {
    "npstructures/raggedshape.py": ["C02", "C03", "C04", "C05", "C01", "C08", "C07", "C09", "C06", "C10", "C19"],
    "npstructures/raggedarray/indexablearray.py": ["C02", "C03", "C09", "C08", "C06", "C19"],
    "npstructures/raggedarray/base.py": ["C02", "C03", "C01", "C06"],
    "npstructures/raggedarray/__init__.py": ["C05", "C04", "C07", "C01", "C09", "C08", "C02", "C06", "C10"],
    "npstructures/raggedarray/raggedslice.py": ["C08", "C15", "C17"],
    "npstructures/arrayfunctions.py": ["C08", "C07", "C06"],
    "npstructures/hashtable.py": ["C11", "C12"],
    "npstructures/bitarray.py": ["C13"],
    "npstructures/runlengtharray.py": ["C15", "C16", "C14", "C17"],
    "npstructures/npdataclasses.py": ["C18"],
    "npstructures/util.py": ["C14", "C15", "C16", "C17", "C07"],
}
if os.environ.get("MUTSTUDY_FILES"):                 # JSON {module: [checks in order]}: restrict / reorder
    FILES = json.loads(os.environ["MUTSTUDY_FILES"])
CMP = {ast.Lt: ast.LtE, ast.LtE: ast.Lt, ast.Gt: ast.GtE, ast.GtE: ast.Gt, ast.Eq: ast.NotEq, ast.NotEq: ast.Eq}
BIN = {ast.Add: ast.Sub, ast.Sub: ast.Add, ast.Mult: ast.FloorDiv, ast.FloorDiv: ast.Mult}
SWAP = {"minimum": "maximum", "maximum": "minimum", "min": "max", "max": "min", "any": "all", "all": "any"}


def sites(tree):
    out = []
    for fn in ast.walk(tree):
        if not isinstance(fn, ast.FunctionDef):
            continue
        for node in ast.walk(fn):
            if isinstance(node, ast.Compare):
                for i, op in enumerate(node.ops):
                    if type(op) in CMP:
                        out.append(("cmp", node, i, fn.name))
            elif isinstance(node, ast.BinOp) and type(node.op) in BIN:
                out.append(("bin", node, None, fn.name))
            elif isinstance(node, ast.Constant) and isinstance(node.value, int) and not isinstance(node.value, bool) and node.value in (0, 1, -1, 2):
                out.append(("const", node, None, fn.name))
            elif isinstance(node, ast.Attribute) and node.attr in SWAP:
                out.append(("name", node, None, fn.name))
            elif isinstance(node, ast.UnaryOp) and isinstance(node.op, ast.USub):
                out.append(("neg", node, None, fn.name))
            elif isinstance(node, ast.BoolOp):
                out.append(("bool", node, None, fn.name))
            elif isinstance(node, ast.If):
                out.append(("ifneg", node, None, fn.name))
    # a node can be reached through nested functions twice: keep one
    seen, uniq = set(), []
    for s in out:
        k = (s[0], id(s[1]), s[2])
        if k not in seen:
            seen.add(k)
            uniq.append(s)
    return uniq


def apply(kind, node, i):
    if kind == "cmp":
        node.ops[i] = CMP[type(node.ops[i])]()
    elif kind == "bin":
        node.op = BIN[type(node.op)]()
    elif kind == "const":
        node.value = {0: 1, 1: 0, -1: 0, 2: 1}[node.value]
    elif kind == "name":
        node.attr = SWAP[node.attr]
    elif kind == "neg":
        node.op = ast.UAdd()
    elif kind == "bool":
        node.op = ast.Or() if isinstance(node.op, ast.And) else ast.And()
    elif kind == "ifneg":
        node.test = ast.UnaryOp(op=ast.Not(), operand=node.test)


def all_mutants(executed=None):
    """executed: optional set of (file, function name) that the drivers are known to run (dead code yields only equivalent mutants)"""
    muts = []
    for rel in FILES:
        src = open(os.path.join(REPO, rel)).read()
        n = len(sites(ast.parse(src)))
        for k in range(n):
            t = ast.parse(src)
            kind, node, i, fname = sites(t)[k]
            if executed is not None and (rel, fname) not in executed:
                continue
            line = getattr(node, "lineno", 0)
            apply(kind, node, i)
            muts.append({"file": rel, "func": fname, "kind": kind, "line": line, "k": k, "src": ast.unparse(t)})
    return muts


def sh(cmd, env=None, timeout=900, cwd=None):
    try:
        p = subprocess.run(cmd, shell=isinstance(cmd, str), capture_output=True, text=True, env=env, timeout=timeout, cwd=cwd)
        return p.returncode, p.stdout + p.stderr
    except subprocess.TimeoutExpired:
        return 124, "TIMEOUT"


def suite_worker(args):
    wi, items = args
    wd = f"/tmp/mutstudy/w{wi}"
    shutil.rmtree(wd, ignore_errors=True)
    os.makedirs(wd)
    sh(f"git -C {REPO} archive HEAD | tar -x -C {wd}")
    res = []
    for idx, m in items:
        path = os.path.join(wd, m["file"])
        orig = open(path).read()
        open(path, "w").write(m["src"])
        try:
            rc, o = sh(f"cd {wd} && timeout 300 {PY} -m pytest -x -q -p no:cacheprovider 2>&1 | tail -2", env=dict(os.environ, PYTHONPATH=wd, PYTHONDONTWRITEBYTECODE="1"))
            res.append((idx, "141 passed" in o and "failed" not in o and "error" not in o.lower()))
        finally:
            open(path, "w").write(orig)
    shutil.rmtree(wd, ignore_errors=True)
    return res


def main():
    out_path = sys.argv[1]
    per_file = int(sys.argv[2]) if len(sys.argv) > 2 else 8
    seed = int(sys.argv[3]) if len(sys.argv) > 3 else 1
    verif = os.path.dirname(os.path.dirname(os.path.abspath(__file__)))
    executed = None
    if len(sys.argv) > 4:                        # JSON list of [file, function, line] executed by the drivers (profile run)
        executed = {(f, n) for f, n, _ in json.load(open(sys.argv[4]))}
    max_checks = int(sys.argv[5]) if len(sys.argv) > 5 else 99
    muts = all_mutants(executed)
    r = random.Random(seed)
    # the suite is fast: try up to 60 mutants per file
    byfile = {}
    for i, m in enumerate(muts):
        byfile.setdefault(m["file"], []).append(i)
    cand = []
    for f, idxs in byfile.items():
        r.shuffle(idxs)
        cand += idxs[:60]
    os.makedirs("/tmp/mutstudy", exist_ok=True)
    chunks = [(w, [(i, muts[i]) for i in cand[w::16]]) for w in range(16)]
    with mp.get_context("fork").Pool(16) as pool:
        suite = dict(x for rs in pool.map(suite_worker, chunks) for x in rs)
    result = {"generated": len(muts), "per_file_generated": {f: len(v) for f, v in byfile.items()}, "suite_tried": len(cand),
              "suite_survivors": sum(1 for v in suite.values() if v), "mutants": []}
    print("generated", len(muts), "tried", len(cand), "survive the suite", result["suite_survivors"], flush=True)
    wd = "/tmp/mutstudy/check"
    for f in FILES:
        surv = [i for i in byfile[f][:60] if suite.get(i)]
        for i in surv[:per_file]:
            m = muts[i]
            shutil.rmtree(wd, ignore_errors=True)
            os.makedirs(wd)
            sh(f"git -C {REPO} archive HEAD | tar -x -C {wd}")
            open(os.path.join(wd, m["file"]), "w").write(m["src"])
            rec = {"file": f, "func": m["func"], "kind": m["kind"], "line": m["line"], "checks": {}, "killed_by": None}
            for p in FILES[f][:max_checks]:
                t = time.time()
                rc, o = sh(["./check", p], env=dict(os.environ, VERIF_REPO=wd, VERIF_SCRATCH_BASE="/tmp"), cwd=verif, timeout=1500)
                first = next((l for l in o.splitlines() if l.startswith("  verdict=")), "")
                rec["checks"][p] = {"exit": rc, "wall_s": round(time.time() - t, 1), "first": first[:240]}
                if rc == 1:
                    rec["killed_by"] = p
                    break
            result["mutants"].append(rec)
            print(f, m["func"], m["kind"], m["line"], "->", rec["killed_by"], flush=True)
            json.dump(result, open(out_path, "w"), indent=1)
    shutil.rmtree("/tmp/mutstudy", ignore_errors=True)
    json.dump(result, open(out_path, "w"), indent=1)


if __name__ == "__main__":
    main()
