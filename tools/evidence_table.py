#!/venv/bin/python
"""Print a markdown table of what the last run of every check covered (from /verif/evidence/*.json)."""
import json, glob, os
rows = []
for f in sorted(glob.glob(os.path.join(os.path.dirname(os.path.dirname(os.path.abspath(__file__))), "evidence", "C*.json"))):
    e = json.load(open(f))
    c = e["coverage"]
    tl = "; ".join(f"{x['module']}: {x.get('distinct', x.get('distinct_states', 0))}" for x in c.get("tlc", []))
    rp = sum(x.get("evals", 0) for x in c.get("replay", []))
    tr = "; ".join(f"{x['module']}: {x.get('events', x.get('programs', 0))}" + (f" ({x['steps']} steps)" if 'steps' in x else "") for x in c.get("trace", []))
    lm = "; ".join(f"{x['module'].split('/')[-1]} {'/'.join(x['lemmas'])}: {x['result']}" for x in c.get("lemmas", []))
    rows.append(f"| {e['property_id']} | {e['tier']} | {tl} | {rp} | {tr} | {lm or '-'} | {sum(c.get('known_findings', {}).values()) if isinstance(c.get('known_findings'), dict) else 0} | {e['violations']} | {e['wall_s']} |")
print("| check | tier | TLC distinct states (bounded instances) | executions of enumerated states against the code | driver events / programs validated by TLC | mechanism lemmas | known-finding cases | violations | wall s |")
print("|---|---|---|---|---|---|---|---|---|")
print("\n".join(rows))
